#!/bin/bash
# ./selftest.sh <property id> <patch.diff> : apply a patch to a scratch copy of /repo (outside /repo and /verif),
# run the property's check against it, remove the copy. Prints the check's last lines and its exit code.
pid=$1; patch=$(readlink -f "$2"); tier=${3:-quick}
scratch=${VERIF_SCRATCH:-/root/scratch}; mkdir -p "$scratch"
d=$(mktemp -d "$scratch/st.XXXXXX")
cp -r /repo/src /repo/cmake "$d"/ 2>/dev/null
( cd "$d" && patch -p1 -s --no-backup-if-mismatch < "$patch" ) || { echo "PATCH FAILED"; rm -rf "$d"; exit 9; }
VERIF_OUT="$d/out" CMINX_SRC="$d/src" CMINX_CMAKE="$d/cmake" /verif/check "$pid" --tier "$tier" 2>&1 | sed "s#$d#<scratch>#g" | tail -${LINES_OUT:-6}
rc=${PIPESTATUS[0]}
rm -rf "$d"
echo "exit=$rc"
exit $rc
