"""Bounded driver for C07 (docutils acceptance is outside any contract): every generated module is rendered by the
real pipeline and parsed by docutils with stub directives for the Sphinx directives CMinx emits; no message of
level >= ERROR; top-level shape = title, module directive, entries; every child of an entry stays inside it."""
import os
import random
import shutil
import tempfile

from . import gen_cmake
from .drv_pipeline import run_one

STUBS = ["module", "function", "data", "py:class", "py:method", "py:attribute"]

VALID_REST_DOCS = [
    ["A paragraph.", "", "Second paragraph."],
    ["Summary.", "", ":param a: first", ":type a: int"],
    ["List:", "", "* one", "* two", "", "done"],
    ["Code::", "", "   literal block", "   more", "", "after"],
    [".. note::", "", "   body of the note", "   continues"],
    [".. warning:: inline text"],
    [],
    ["Summary", "", ".. code-block:: cmake", "", "   set(A 1)"],
]


def parse(text):
    import docutils.core
    import docutils.nodes
    from docutils.parsers.rst import Directive, directives

    class Stub(Directive):
        has_content = True
        optional_arguments = 10
        final_argument_whitespace = True
        option_spec = {"value": directives.unchanged, "maxdepth": directives.unchanged}

        def run(self):
            node = docutils.nodes.container()
            node["stub"] = self.name
            node["arg"] = " ".join(self.arguments)
            self.state.nested_parse(self.content, self.content_offset, node)
            return [node]
    for n in STUBS + ["code-block"]:
        directives.register_directive(n, Stub)
    from docutils.parsers.rst import roles

    def stub_role(name, rawtext, text, lineno, inliner, options=None, content=None):
        return [docutils.nodes.literal(rawtext, text)], []
    for r in ("class", "func", "ref"):
        roles.register_local_role(r, stub_role)
    import io
    err = io.StringIO()
    doctree = docutils.core.publish_doctree(text, settings_overrides={"warning_stream": err, "report_level": 2,
                                                                       "halt_level": 5})
    msgs = [m for m in doctree.traverse(docutils.nodes.system_message) if m["level"] >= 3]
    return doctree, msgs


def shape(doctree):
    import docutils.nodes
    top = []
    for c in doctree.children:
        if isinstance(c, docutils.nodes.title):
            top.append("title")
        elif isinstance(c, docutils.nodes.container) and "stub" in c.attributes:
            top.append(c["stub"])
        elif isinstance(c, docutils.nodes.system_message):
            continue
        else:
            top.append(type(c).__name__)
    return top


def run(seed, tier, stats, pid=None):
    import logging
    logging.disable(logging.CRITICAL)
    rnd = random.Random(seed)
    n = 40 if tier == "quick" else 400
    tmp = tempfile.mkdtemp(prefix="pyvc_docutils_")
    violations, samples = [], []
    cases = 0
    saved = gen_cmake.DOC_TEXTS
    try:
        from cminx.config import Settings
        gen_cmake.DOC_TEXTS = VALID_REST_DOCS       # C07 is conditional on valid reST doc texts
        g = gen_cmake.Gen(rnd)
        for i in range(n):
            text = g.module()
            case = {"driver": "docutils", "input": f"gen{i}", "text": text if len(text) < 3000 else None}
            out, ex = run_one(text, Settings(), stats, case, tmp)
            cases += 1
            if ex is not None:
                continue
            try:
                doctree, msgs = parse(out)
            except Exception as e:
                violations.append({"function": "cminx.documenter:Documenter.process", "clause": "C07-parse",
                                   "case": case, "observed": repr(e)})
                continue
            if msgs:
                violations.append({"function": "cminx.documenter:Documenter.process", "clause": "C07-error-message",
                                   "case": case, "observed": [m.astext()[:200] for m in msgs[:3]]})
            sh = shape(doctree)
            ok = len(sh) >= 2 and sh[0] == "title" and sh[1] == "module" and \
                all(x in ("function", "data", "py:class") for x in sh[2:])
            if not ok:
                violations.append({"function": "cminx.documenter:Documenter.process", "clause": "C07-shape",
                                   "case": case, "observed": sh[:12]})
            if len(samples) < 2:
                samples.append({"input": f"gen{i}", "top_level": sh[:8]})
    finally:
        gen_cmake.DOC_TEXTS = saved
        shutil.rmtree(tmp, ignore_errors=True)
        logging.disable(logging.NOTSET)
    return {"cases": cases, "distinct": cases, "samples": samples, "violations": violations,
            "bound": f"{n} generated modules (all entry kinds, valid reST doc texts of 8 shapes, class nesting <= 3), seed {seed}"}


def replay_case(case, stats):
    from cminx.config import Settings
    tmp = tempfile.mkdtemp(prefix="pyvc_replay_")
    try:
        out, ex = run_one(case.get("text") or "", Settings(), stats, case, tmp)
        if out is not None:
            doctree, msgs = parse(out)
            sh = shape(doctree)
            if msgs or not (len(sh) >= 2 and sh[0] == "title" and sh[1] == "module"):
                stats.violations.append({"function": "cminx.documenter:Documenter.process", "clause": "C07-shape",
                                         "case": case, "observed": sh[:12]})
    finally:
        shutil.rmtree(tmp, ignore_errors=True)
