"""Bounded driver: real CMake text -> real Documenter (ANTLR parser, aggregator, renderers, writer).
Every function under contract is wrapped by pyvc.runtime, so each case evaluates the contracts natively.
Labelled bounded stand-in / replay vehicle; never counted as proof."""
import glob
import os
import random
import shutil
import tempfile

from . import gen_cmake

HERE = os.path.dirname(os.path.dirname(os.path.abspath(__file__)))


def repo_root():
    src = os.environ.get("CMINX_SRC", "/repo/src")
    return os.path.dirname(src.rstrip("/"))


def corpus_files():
    root = "/repo"
    pats = ["tests/examples/*.cmake", "tests/examples/more_cmake_files/*.cmake", "tests/test_samples/**/*.cmake",
            "cmake/*.cmake", "tests/cmake_input/**/*.cmake"]
    out = []
    for p in pats:
        out += sorted(glob.glob(os.path.join(root, p), recursive=True))
    out += sorted(glob.glob(os.path.join(HERE, "findings", "inputs", "*.cmake")))
    out += sorted(glob.glob(os.path.join(HERE, "bounded", "inputs", "*.cmake")))
    return out


def run_one(text, settings, stats, case, tmpdir, name="mod.cmake"):
    from cminx.documenter import Documenter
    path = os.path.join(tmpdir, name)
    with open(path, "w", encoding="utf-8") as f:
        f.write(text)
    import contextlib
    import io
    stats.current_case = case
    try:
        with contextlib.redirect_stderr(io.StringIO()):      # ANTLR's console listener prints to stderr
            d = Documenter(path, "Title", "modname", settings)
            w = d.process()
            out = w.to_text()
        return out, None
    except BaseException as ex:     # malformed inputs are allowed to fail loudly
        return None, ex
    finally:
        stats.current_case = None


def run(seed, tier, stats, pid=None):
    import logging
    logging.disable(logging.CRITICAL)
    rnd = random.Random(seed)
    n_gen = 60 if tier == "quick" else 600
    tmp = tempfile.mkdtemp(prefix="pyvc_pipe_")
    cases = 0
    distinct = set()
    samples = []
    errors = 0
    try:
        variants = gen_cmake.settings_variants(rnd, 3 if tier == "quick" else 12)
        texts = []
        for f in corpus_files():
            try:
                with open(f, encoding="utf-8") as fh:
                    texts.append((os.path.relpath(f, "/"), fh.read()))
            except Exception:
                pass
        g = gen_cmake.Gen(rnd)
        for i in range(n_gen):
            texts.append((f"gen{i}", g.module()))
        for name, text in texts:
            vs = variants if name.startswith("gen") or "findings" in name else variants[:2]
            for vname, st in vs:
                case = {"driver": "pipeline", "input": name, "settings": vname, "seed": seed,
                        "text": text if len(text) < 4000 else None}
                out, ex = run_one(text, st, stats, case, tmp)
                cases += 1
                distinct.add((name, vname))
                if ex is not None:
                    errors += 1
            if len(samples) < 3 and name.startswith("gen"):
                samples.append({"input": name, "text": text[:600]})
    finally:
        shutil.rmtree(tmp, ignore_errors=True)
    return {"cases": cases, "distinct": len(distinct), "samples": samples, "violations": [],
            "bound": f"{len(texts)} modules ({n_gen} generated with seed {seed}: <= 7 top-level items, class nesting <= 3, "
                     f"test nesting <= 3) x {len(variants)} settings variants; {errors} cases raised"}


def replay_case(case, stats):
    from cminx.config import Settings
    rnd = random.Random(case.get("seed", 1))
    variants = dict(gen_cmake.settings_variants(rnd, 12))
    st = variants.get(case.get("settings"), Settings())
    text = case.get("text")
    if text is None:
        with open("/" + case["input"], encoding="utf-8") as f:
            text = f.read()
    tmp = tempfile.mkdtemp(prefix="pyvc_replay_")
    try:
        run_one(text, st, stats, case, tmp)
    finally:
        shutil.rmtree(tmp, ignore_errors=True)
