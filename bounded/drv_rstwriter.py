"""Bounded driver for the RSTWriter API: enumerated + seeded-random operation sequences on the real classes.
Used as the labelled *bounded* stand-in / replay vehicle; the contracts are evaluated by pyvc.runtime wrappers."""
import itertools
import random

TEXTS = ["", "a", "two\nlines", "  lead\n\n  x", "α✓", ":param x: y", ".. note::\n\n   body", "#[ ]"]
NAMES = ["note", "py:class", "x"]


def apply_op(w, stack, op, rnd):
    from cminx.rstwriter import RSTWriter
    cur = stack[-1]
    kind = op[0]
    if kind == "text":
        cur.text(op[1])
    elif kind == "field":
        cur.field(op[1], op[2])
    elif kind == "bl":
        cur.bulleted_list(*op[1])
    elif kind == "el":
        cur.enumerated_list(*op[1])
    elif kind == "dir":
        d = cur.directive(op[1], *op[2])
        stack.append(d)
    elif kind == "opt":
        if hasattr(cur, "option"):
            cur.option(op[1], op[2])
    elif kind == "up":
        if len(stack) > 1:
            stack.pop()
    elif kind == "title":
        cur.title = op[1]
    elif kind == "clear":
        cur.clear()
    elif kind == "doctest":
        cur.doctest(op[1], op[2])
    elif kind == "table":
        cur.simple_table([["a", "bb"], ["c", "d"]], ["h1", "h2"])
    elif kind == "str":
        a = w.to_text()
        b = str(w)
        c = w.to_text()
        assert a == b == c, "serialisation not repeatable"


def gen_ops(rnd, n):
    ops = []
    for _ in range(n):
        k = rnd.choice(["text", "text", "field", "bl", "el", "dir", "dir", "opt", "up", "title", "clear", "str", "str",
                        "doctest", "table"])
        if k == "text":
            ops.append(("text", rnd.choice(TEXTS)))
        elif k == "field":
            ops.append(("field", rnd.choice(["type", "Default value"]), rnd.choice(["v", "", None, "a b"])))
        elif k in ("bl", "el"):
            ops.append((k, [rnd.choice(["i", "", "x y"]) for _ in range(rnd.randint(0, 3))]))
        elif k == "dir":
            ops.append(("dir", rnd.choice(NAMES), [rnd.choice(["a", "f(x y)"]) for _ in range(rnd.randint(0, 2))]))
        elif k == "opt":
            ops.append(("opt", rnd.choice(["maxdepth", "value"]), rnd.choice([2, "v", ""])))
        elif k == "title":
            ops.append(("title", rnd.choice(["T", "", "long title ✓"])))
        elif k == "doctest":
            ops.append(("doctest", "1+1", "2"))
        else:
            ops.append((k,))
    return ops


def fixed_cases():
    """small systematic cases: every op kind at nesting depth 0..3, title change after serialisation"""
    cases = []
    for depth in range(0, 4):
        ops = [("dir", "d%d" % i, ["a"]) for i in range(depth)]
        ops += [("text", "x\n y"), ("field", "f", "v"), ("bl", ["a", "b"]), ("el", ["a", "b"]), ("opt", "o", 1),
                ("dir", "inner", []), ("text", "t"), ("str",), ("title", "New"), ("str",), ("clear",), ("str",)]
        cases.append(ops)
    cases.append([("str",), ("title", "changed title"), ("str",), ("text", "a"), ("title", ""), ("str",)])
    return cases


def run_case(name, ops, headers, stats):
    from cminx.rstwriter import RSTWriter
    from cminx import Settings
    from cminx.config import RSTSettings
    import random
    stats.current_case = {"driver": "rstwriter", "case": name, "headers": headers, "ops": ops}
    st = Settings()
    if headers is not None:
        st = Settings(rst=RSTSettings(headers=headers))
    w = RSTWriter("Title ✓", settings=st)
    stack = [w]
    for op in ops:
        apply_op(w, stack, tuple(op), random.Random(0))
    w.to_text()
    stats.current_case = None


def run(seed, tier, stats, pid=None):
    rnd = random.Random(seed)
    n_random = 150 if tier == "quick" else 1500
    cases = [("fixed%d" % i, ops) for i, ops in enumerate(fixed_cases())]
    for i in range(n_random):
        cases.append(("rnd%d" % i, gen_ops(rnd, rnd.randint(1, 14))))
    count = 0
    distinct = set()
    samples = []
    violations = []
    for name, ops in cases:
        for headers in (None, ["=", "-"]):
            try:
                run_case(name, ops, headers, stats)
            except AssertionError as ex:
                violations.append({"function": "cminx.rstwriter:RSTWriter.to_text", "clause": "repeatable",
                                   "case": {"driver": "rstwriter", "case": name, "headers": headers, "ops": ops},
                                   "observed": str(ex)})
            count += 1
            distinct.add(repr((ops, headers)))
        if len(samples) < 3:
            samples.append({"ops": ops})
    return {"cases": count, "distinct": len(distinct), "samples": samples, "violations": violations,
            "bound": "operation sequences of length <= 14 over 11 operation kinds, nesting depth <= 4 + random; "
                     "%d seeded-random sequences + %d fixed" % (n_random, len(fixed_cases()))}


def replay_case(case, stats):
    run_case(case.get("case"), case.get("ops"), case.get("headers"), stats)
