"""Generator of small well-formed CMake modules for the bounded drivers (labelled bounded stand-in).
Modules are built from an abstract item list so that drivers can also compute expectations independently."""
import random

DOC_TEXTS = [
    ["Brief."],
    ["First line", "", "  indented second", ":param a: the a", "#hash start", "[bracket", "]close", ": colon", ".. note::", "", "   body"],
    ["α β ✓ ünïcode"],
    [],
    [":keyword", "uses **kwargs"],
    [""],
    ["  two leading spaces"],
    [".. warning::", "", "   the whole text is one nested directive", "   with an indented body"],
    ["Summary line", "   hanging continuation", "   second continuation"],
]
IDENTS = ["a", "b", "arg_1", "_p_x", "self"]
VALUES = ['"str val"', 'plain', '"${VAR}"', '[[bracket arg]]', '""', '"with \\"escaped\\""', "${ref}", "a;b"]


def doc_block(lines, indent="", leaderless=False):
    out = [indent + "#[[["]
    for l in lines:
        if leaderless:
            out.append(l)
        else:
            out.append(indent + ("#" if l == "" else "# " + l))
    out.append(indent + "#]]")
    return "\n".join(out)


class Gen:
    def __init__(self, rnd):
        self.rnd = rnd
        self.n = 0

    def name(self, p):
        self.n += 1
        return f"{p}{self.n}"

    def maybe_doc(self, indent, force=None):
        doc = self.rnd.random() < 0.6 if force is None else force
        if not doc:
            return ""
        return doc_block(self.rnd.choice(DOC_TEXTS), indent) + "\n"

    def case(self, word):
        r = self.rnd.random()
        if r < 0.7:
            return word
        if r < 0.85:
            return word.upper()
        return "".join(c.upper() if i % 2 else c for i, c in enumerate(word))

    def body_cmds(self, indent, depth):
        out = []
        for _ in range(self.rnd.randint(0, 2)):
            k = self.rnd.choice(["message", "cpa", "set", "if", "nested", "nested_test"])
            if k == "message":
                out.append(f'{indent}message(STATUS "x" ${{y}})')
            elif k == "cpa":
                out.append(f'{indent}cmake_parse_arguments(P "" "" "" ${{ARGN}})')
            elif k == "set":
                out.append(f'{indent}set(local_{self.n} 1)')
            elif k == "if":
                out.append(f'{indent}if(A AND (B OR C))\n{indent}  cmake_parse_arguments(Q "" "" "" ${{ARGN}})\n{indent}endif()')
            elif k == "nested" and depth < 2:
                out.append(self.definition(indent, depth + 1))
            elif k == "nested_test" and depth < 1:
                # a CMakeTest test whose implementation function (not listed itself) parses keyword arguments
                nm = self.name("ntst")
                out.append(f'{indent}ct_add_test(NAME {nm})\n{indent}function(${{{nm}}})\n{indent}    '
                           f'cmake_parse_arguments(T "" "" "" ${{ARGN}})\n{indent}endfunction()')
        return out

    def definition(self, indent, depth=0, kind=None, doc=None):
        kind = kind or self.rnd.choice(["function", "macro"])
        nm = self.name("fn")
        params = " ".join(self.rnd.sample(IDENTS, self.rnd.randint(0, 3)))
        lines = [self.maybe_doc(indent, doc) + f"{indent}{self.case(kind)}({nm} {params})".rstrip()]
        lines += self.body_cmds(indent + "    ", depth)
        lines.append(f"{indent}{self.case('end' + kind)}()")
        return "\n".join(lines)

    def variable(self, indent):
        nm = self.name("VAR")
        vals = " ".join(self.rnd.choice(VALUES) for _ in range(self.rnd.randint(0, 3)))
        return self.maybe_doc(indent, self.rnd.random() < 0.8) + f"{indent}{self.case('set')}({nm} {vals})".replace(" )", ")")

    def option(self, indent):
        nm = self.name("OPT")
        d = self.rnd.choice(["", " ON", " OFF", " ${dflt}"])
        return self.maybe_doc(indent) + f'{indent}{self.case("option")}({nm} "help text {self.n}"{d})'

    def generic(self, indent):
        forms = ['add_library(lib STATIC a.c (x y) b.c)', 'include(Foo)', 'message("hi" there)',
                 'target_link_libraries(t PUBLIC (a) b)', 'find_package(X REQUIRED)']
        return self.maybe_doc(indent) + indent + self.rnd.choice(forms)

    def test(self, indent, depth=0):
        kind = "ct_add_test" if depth == 0 else "ct_add_section"
        nm = self.name("tst")
        args = [f"NAME {nm}"]
        if self.rnd.random() < 0.4:
            args.append("EXPECTFAIL")
        if self.rnd.random() < 0.3:
            args.append(self.rnd.choice(["expectfail", "name", nm, "PRINT_LENGTH 80"]))
        self.rnd.shuffle(args)
        out = [self.maybe_doc(indent) + f"{indent}{self.case(kind)}({' '.join(args)})"]
        out.append(f"{indent}{self.rnd.choice(['function', 'macro'])}(${{{nm}}})")
        for _ in range(self.rnd.randint(0, 2)):
            if depth < 2 and self.rnd.random() < 0.5:
                out.append(self.test(indent + "    ", depth + 1))
            else:
                out += self.body_cmds(indent + "    ", 2)
        out.append(f"{indent}endfunction()" if out[1].lstrip().startswith("function") else f"{indent}endmacro()")
        return "\n".join(out)

    def ctest(self, indent):
        nm = self.name("ct")
        forms = [f"NAME {nm} COMMAND {nm} arg", f"NAME {nm} COMMAND echo name foo", f"COMMAND run NAME {nm}",
                 f"{nm} exe arg", f"NAME {nm} COMMAND x CONFIGURATIONS Debug"]
        return self.maybe_doc(indent) + f"{indent}{self.case('add_test')}({self.rnd.choice(forms)})"

    def klass(self, indent, depth=0):
        nm = self.name("Cls")
        bases = " ".join(self.name("Base") for _ in range(self.rnd.randint(0, 2)))
        out = [self.maybe_doc(indent) + f"{indent}{self.case('cpp_class')}({nm} {bases})".replace(" )", ")")]
        ind2 = indent + "    "
        for _ in range(self.rnd.randint(0, 4)):
            k = self.rnd.choice(["attr", "member", "ctor", "inner", "other"])
            if k == "attr":
                d = self.rnd.choice(["", " 1", ' "dflt"'])
                out.append(self.maybe_doc(ind2) + f"{ind2}cpp_attr({nm} {self.name('attr')}{d})")
            elif k in ("member", "ctor"):
                mn = self.name("m")
                types = self.rnd.sample(["int", "str", "args", "desc"], self.rnd.randint(0, 3))
                cmd = "cpp_member" if k == "member" else "cpp_constructor"
                mname = mn if k == "member" else "CTOR"
                out.append(self.maybe_doc(ind2) + f"{ind2}{cmd}({mname} {nm} {' '.join(types)})".replace(" )", ")"))
                dk = self.rnd.choice(["function", "macro"])
                ps = " ".join(["self"] + self.rnd.sample(IDENTS[:4], self.rnd.randint(0, 3)))
                dd = self.maybe_doc(ind2, self.rnd.random() < 0.15)
                out.append(f'{dd}{ind2}{dk}("${{{mname}}}" {ps})')
                out += self.body_cmds(ind2 + "    ", 2)
                out.append(f"{ind2}end{dk}()")
            elif k == "inner" and depth < 2:
                out.append(self.klass(ind2, depth + 1))
            else:
                out.append(f'{ind2}message("inside class")')
        out.append(f"{indent}{self.case('cpp_end_class')}()")
        return "\n".join(out)

    def module(self, n_items=None):
        self.n = 0
        items = []
        if self.rnd.random() < 0.3:
            nm = self.rnd.choice(["", " mymod", " pkg.sub"])
            body = self.rnd.choice(DOC_TEXTS)
            ind = self.rnd.choice(["", "", "  ", "        "])
            lines = [ind + "#[[[ @module" + nm] + [ind + ("#" if l == "" else "# " + l) for l in body] + [ind + "#]]"]
            items.append("\n".join(lines))
        for _ in range(n_items if n_items is not None else self.rnd.randint(1, 7)):
            k = self.rnd.choice(["def", "def", "var", "opt", "gen", "test", "ctest", "class", "class", "comment",
                                 "dangling", "cpa"])
            ind = self.rnd.choice(["", "", "  ", "\t", "      "])
            if k == "def":
                items.append(self.definition(ind))
            elif k == "var":
                items.append(self.variable(ind))
            elif k == "opt":
                items.append(self.option(ind))
            elif k == "gen":
                items.append(self.generic(ind))
            elif k == "test":
                items.append(self.test(ind))
            elif k == "ctest":
                items.append(self.ctest(ind))
            elif k == "class":
                items.append(self.klass(ind))
            elif k == "comment":
                items.append(self.rnd.choice(["# function(not_code)", "#[[ #[[[ not a doc ]]", "#[==[ x ]==]"]))
            elif k == "dangling":
                items.append(doc_block(["dangling"], ind))
            elif k == "cpa":
                items.append('cmake_parse_arguments(TOP "" "" "" ${ARGN})')
        return "\n".join(items) + "\n"


def settings_variants(rnd, n):
    from cminx.config import Settings, InputSettings, RSTSettings
    flags = ["include_undocumented_function", "include_undocumented_macro", "include_undocumented_cpp_class",
             "include_undocumented_cpp_attr", "include_undocumented_cpp_constructor", "include_undocumented_cpp_member",
             "include_undocumented_ct_add_test", "include_undocumented_ct_add_section", "include_undocumented_add_test",
             "include_undocumented_option"]
    out = [("default", Settings())]
    out.append(("all_off", Settings(input=InputSettings(**{f: False for f in flags}))))
    for i in range(n):
        kw = {f: rnd.random() < 0.5 for f in flags}
        kw["function_parameter_name_strip_regex"] = rnd.choice(["", "^_[a-z]*_", "a"])
        kw["macro_parameter_name_strip_regex"] = rnd.choice(["", "^arg"])
        kw["member_parameter_name_strip_regex"] = rnd.choice(["", "^_p_"])
        kw["kwargs_doc_trigger_string"] = rnd.choice([":keyword", ":param **kwargs:", "uses"])
        out.append((f"rnd{i}", Settings(input=InputSettings(**kw),
                                        rst=RSTSettings(headers=rnd.choice([None, ["=", "-", "~"]]) or
                                                        ('#', '*', '=', '-', '_', '~', '!', '&', '@', '^')))))
    return out
