"""Bounded-but-exhaustive driver for C16: every option of the input/output/rst sections x every subset of the
sources that can set it (command line, -s file, per-user config; defaults always present), distinct values per
source, through the real cminx.main with cminx.document intercepted.  confuse/argparse are third-party (T-LIB):
this driver is what validates the assumed library contracts.  Labelled bounded (exhaustive over the property's own
finite quantifier for single options)."""
import contextlib
import io
import itertools
import os
import shutil
import tempfile

import yaml

BOOL_OPTS = ["input.include_undocumented_function", "input.include_undocumented_macro",
             "input.include_undocumented_cpp_class", "input.include_undocumented_cpp_attr",
             "input.include_undocumented_cpp_constructor", "input.include_undocumented_cpp_member",
             "input.include_undocumented_ct_add_test", "input.include_undocumented_ct_add_section",
             "input.include_undocumented_add_test", "input.include_undocumented_option",
             "input.auto_exclude_directories_without_cmake", "input.recursive", "input.follow_symlinks",
             "rst.file_extensions_in_titles", "rst.file_extensions_in_modules", "output.relative_to_config"]
STR_OPTS = ["input.kwargs_doc_trigger_string", "input.function_parameter_name_strip_regex",
            "input.macro_parameter_name_strip_regex", "input.member_parameter_name_strip_regex",
            "rst.module_path_separator", "rst.prefix"]
CLI_FLAG = {"input.recursive": ["-r"], "rst.prefix": ["-p", "CLI_VALUE"], "output.directory": ["-o", "cli_out"],
            "input.exclude_filters": ["-e", "cli_pat"]}


def nested(path, value):
    a, b = path.split(".")
    return {a: {b: value}}


def get(settings, path):
    a, b = path.split(".")
    return getattr(getattr(settings, a), b)


def defaults():
    import cminx
    p = os.path.join(os.path.dirname(cminx.__file__), "config_default.yaml")
    with open(p) as f:
        return yaml.safe_load(f)


def run_main_capture(args, cwd, userdir):
    import cminx
    captured = []
    real = cminx.document
    old_env = os.environ.get("CMINXDIR")
    old_cwd = os.getcwd()
    os.environ["CMINXDIR"] = userdir
    try:
        cminx.document = lambda f, s: captured.append(s)
        os.chdir(cwd)
        with contextlib.redirect_stdout(io.StringIO()), contextlib.redirect_stderr(io.StringIO()):
            try:
                cminx.main(args)
                err = None
            except BaseException as ex:
                err = ex
    finally:
        cminx.document = real
        os.chdir(old_cwd)
        if old_env is None:
            os.environ.pop("CMINXDIR", None)
        else:
            os.environ["CMINXDIR"] = old_env
    return (captured[0] if captured else None), err


def run(seed, tier, stats, pid=None):
    import logging
    dflt = defaults()
    tmp = tempfile.mkdtemp(prefix="pyvc_settings_")
    violations, samples = [], []
    cases = 0
    try:
        work = os.path.join(tmp, "work")
        cfgdir = os.path.join(tmp, "cfgs", "sub")
        os.makedirs(work)
        os.makedirs(cfgdir)
        inp = os.path.join(work, "in.cmake")
        with open(inp, "w") as f:
            f.write("function(f)\nendfunction()\n")

        def one(opt, sources, values, expect, extra_file=None, extra_user=None):
            nonlocal cases
            userdir = os.path.join(tmp, f"user{cases}")
            os.makedirs(userdir)
            args = []
            if "user" in sources:
                d = nested(opt, values["user"])
                d.setdefault("logging", {"version": 1})
                with open(os.path.join(userdir, "config.yaml"), "w") as f:
                    yaml.safe_dump(d, f)
            if "file" in sources:
                d = nested(opt, values["file"])
                with open(os.path.join(cfgdir, "s.yaml"), "w") as f:
                    yaml.safe_dump(d, f)
                args += ["-s", os.path.join(cfgdir, "s.yaml")]
            if "cli" in sources:
                flag = list(CLI_FLAG[opt])
                if len(flag) > 1:
                    flag[1] = values["cli"]
                args += flag
            args.append(inp)
            case = {"driver": "settings", "option": opt, "sources": sorted(sources), "values": values}
            stats.current_case = case
            st, err = run_main_capture(args, work, userdir)
            stats.current_case = None
            cases += 1
            shutil.rmtree(userdir, ignore_errors=True)
            if st is None:
                violations.append({"function": "cminx:main", "clause": "C16-layering", "case": case,
                                   "observed": "main failed: " + repr(err)})
                return
            got = get(st, opt)
            if got != expect and not (isinstance(expect, list) and list(got) == expect):
                violations.append({"function": "cminx:main", "clause": "C16-layering", "case": case,
                                   "observed": got, "expected": expect})
            if len(samples) < 3:
                samples.append({"option": opt, "sources": sorted(sources), "effective": got})

        for opt in BOOL_OPTS:
            a, b = opt.split(".")
            d = dflt[a][b]
            can = ["user", "file"] + (["cli"] if opt in CLI_FLAG else [])
            for r in range(0, len(can) + 1):
                for S in itertools.combinations(can, r):
                    values = {"user": (not d), "file": d, "cli": True}
                    exp = True if "cli" in S else (values["file"] if "file" in S else (values["user"] if "user" in S else d))
                    one(opt, set(S), values, exp)
        for opt in STR_OPTS:
            a, b = opt.split(".")
            d = dflt[a].get(b) if b in dflt[a] else None
            can = ["user", "file"] + (["cli"] if opt in CLI_FLAG else [])
            for r in range(0, len(can) + 1):
                for S in itertools.combinations(can, r):
                    values = {"user": "U_" + b, "file": "F_" + b, "cli": "C_" + b}
                    exp = values["cli"] if "cli" in S else (values["file"] if "file" in S else (values["user"] if "user" in S else d))
                    one(opt, set(S), values, exp)
        # header list
        for S in [(), ("user",), ("file",), ("user", "file")]:
            values = {"user": ["=", "-"], "file": ["~", "^", "+"]}
            exp = values["file"] if "file" in S else (values["user"] if "user" in S else dflt["rst"]["headers"])
            one("rst.headers", set(S), values, exp)
        # exclude filters: union over all sources
        for r in range(0, 4):
            for S in itertools.combinations(["user", "file", "cli"], r):
                values = {"user": ["user_pat"], "file": ["file_pat"], "cli": "cli_pat"}
                userdir = os.path.join(tmp, f"userx{cases}")
                os.makedirs(userdir)
                args = []
                if "user" in S:
                    with open(os.path.join(userdir, "config.yaml"), "w") as f:
                        yaml.safe_dump({"input": {"exclude_filters": values["user"]}, "logging": {"version": 1}}, f)
                if "file" in S:
                    with open(os.path.join(cfgdir, "s.yaml"), "w") as f:
                        yaml.safe_dump({"input": {"exclude_filters": values["file"]}}, f)
                    args += ["-s", os.path.join(cfgdir, "s.yaml")]
                if "cli" in S:
                    args += ["-e", "cli_pat"]
                args.append(inp)
                case = {"driver": "settings", "option": "input.exclude_filters", "sources": sorted(S)}
                st, err = run_main_capture(args, work, userdir)
                cases += 1
                shutil.rmtree(userdir, ignore_errors=True)
                want = set((["cli_pat"] if "cli" in S else []) + (values["file"] if "file" in S else []) +
                           (values["user"] if "user" in S else []))
                if st is None or set(st.input.exclude_filters) != want:
                    violations.append({"function": "cminx:main", "clause": "C16-exclude-union", "case": case,
                                       "observed": None if st is None else list(st.input.exclude_filters),
                                       "expected": sorted(want)})
        # output directory resolution
        for mode in ("cli_rel", "file_rel_cwd", "file_rel_config", "cli_over_file"):
            userdir = os.path.join(tmp, f"usero{cases}")
            os.makedirs(userdir)
            args = []
            if mode == "cli_rel":
                args = ["-o", "rel_out"]
                want = os.path.join(work, "rel_out")
            elif mode == "file_rel_cwd":
                with open(os.path.join(cfgdir, "s.yaml"), "w") as f:
                    yaml.safe_dump({"output": {"directory": "frel", "relative_to_config": False}}, f)
                args = ["-s", os.path.join(cfgdir, "s.yaml")]
                want = os.path.join(work, "frel")
            elif mode == "file_rel_config":
                with open(os.path.join(cfgdir, "s.yaml"), "w") as f:
                    yaml.safe_dump({"output": {"directory": "frel", "relative_to_config": True}}, f)
                args = ["-s", os.path.join(cfgdir, "s.yaml")]
                want = os.path.join(cfgdir, "frel")
            else:
                with open(os.path.join(cfgdir, "s.yaml"), "w") as f:
                    yaml.safe_dump({"output": {"directory": "frel"}}, f)
                args = ["-s", os.path.join(cfgdir, "s.yaml"), "-o", "cli_wins"]
                want = os.path.join(work, "cli_wins")
            case = {"driver": "settings", "option": "output.directory", "mode": mode}
            st, err = run_main_capture(args + [inp], work, userdir)
            cases += 1
            shutil.rmtree(userdir, ignore_errors=True)
            got = None if st is None else st.output.directory
            if got is None or os.path.realpath(got) != os.path.realpath(want):
                violations.append({"function": "cminx:main", "clause": "C16-output-dir", "case": case,
                                   "observed": got, "expected": want})
        # wrong types are rejected, not replaced
        for opt, badv in [("input.recursive", "notabool"), ("rst.file_extensions_in_titles", [1, 2]),
                          ("input.include_undocumented_function", "yes please")]:
            userdir = os.path.join(tmp, f"usert{cases}")
            os.makedirs(userdir)
            with open(os.path.join(cfgdir, "s.yaml"), "w") as f:
                yaml.safe_dump(nested(opt, badv), f)
            case = {"driver": "settings", "option": opt, "wrong_type_value": badv}
            st, err = run_main_capture(["-s", os.path.join(cfgdir, "s.yaml"), inp], work, userdir)
            cases += 1
            shutil.rmtree(userdir, ignore_errors=True)
            if st is not None:
                violations.append({"function": "cminx:main", "clause": "C16-type-rejected", "case": case,
                                   "observed": get(st, opt)})
    finally:
        shutil.rmtree(tmp, ignore_errors=True)
    return {"cases": cases, "distinct": cases, "samples": samples, "violations": violations, "exhaustive": True,
            "bound": "every option of input/output/rst x every subset of its setting sources (user config, -s file, "
                     "command line) with distinct values; exclude-filter union over all 8 subsets; 4 output-directory "
                     "resolution modes; 3 wrong-type values"}


def replay_case(case, stats):
    print("settings cases are deterministic: re-run ./check C16; case:", case)
