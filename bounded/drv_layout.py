"""Bounded metamorphic driver for C04 (the lexer half that no contract reaches): layout variants of one module
must give byte-identical reST.  Variants keep the token sequence: inter-token white space, line comments, bracket
comments (level 0-2, with code-like and doccomment-like text), tabs, uniform re-indentation of doccomment blocks,
command-name case; CRLF is compared modulo line endings and white-space-only lines.  Labelled bounded."""
import os
import random
import re
import shutil
import tempfile

from . import gen_cmake
from .drv_pipeline import run_one, corpus_files

COMMENTS = ["# function(not_code)", "#[[ set(X 1) ]]", "#[==[ #[[[ not a doc ]==]", "#[=[ ]] still ]=]", "#", "# #[[["]


def tokens_ok_split(text):
    """split a generated module into lines; variants are produced line-wise (our generator puts one command or one
    doccomment line per line, arguments on the same line)"""
    return text.split("\n")


def variant(text, rnd, kind):
    lines = text.split("\n")
    out = []
    in_doc = False
    doc_indent_delta = rnd.choice(["", "  ", "\t", "        "])
    for l in lines:
        s = l.lstrip(" \t")
        ind = l[:len(l) - len(s)]
        if s.startswith("#[[[") and kind == "inline" and not in_doc:
            # other tokens (a bracket comment, the previous command) before the doccomment on the same line
            if out and out[-1].rstrip().endswith(")") and not out[-1].lstrip().startswith("#") and rnd.random() < 0.5:
                prev = out.pop()
                out.append(prev + " " + s)
            else:
                out.append(ind + rnd.choice(["#[[ public API ]] ", "#[==[ #[[[ not a doc ]==]\t"]) + s)
            in_doc = not s.rstrip().endswith("#]]") or s.strip() == "#[[["
            if s.strip() != "#[[[" and s.rstrip().endswith("#]]"):
                in_doc = False
            continue
        if s.startswith("#[[["):
            in_doc = True
        if in_doc:
            if kind == "reindent":
                out.append(doc_indent_delta + l)
            else:
                out.append(l)
            if s.startswith("#]]"):
                in_doc = False
            continue
        if s.startswith("#") and kind in ("space", "comments"):
            out.append(l)           # a line comment ends at the line break: leave annotation comments alone
            continue
        if kind == "space":
            l2 = ind + rnd.choice(["", " ", "\t", "   "]) + s
            l2 = l2.replace("(", rnd.choice(["(", " (", "( ", "(\n    "]), 1) if "(" in s and '"' not in s and "[[" not in s else l2
            out.append(l2 + rnd.choice(["", " ", "\t"]))
            if rnd.random() < 0.3:
                out.append("")
        elif kind == "comments":
            if rnd.random() < 0.4:
                out.append(ind + rnd.choice(COMMENTS))
            if s and not s.startswith("#") and s.endswith(")") and rnd.random() < 0.4:
                out.append(l + " " + rnd.choice(["# trailing", "#[[ x ]]"]))
            else:
                out.append(l)
        elif kind in ("case", "case_upper", "case_mixed"):
            m = re.match(r"^([A-Za-z_][A-Za-z0-9_]*)(\s*\()", s)
            if m:
                w = m.group(1)
                mixed = "".join(c.upper() if i % 2 else c.lower() for i, c in enumerate(w))
                w2 = w.upper() if kind == "case_upper" else mixed if kind == "case_mixed" else \
                    rnd.choice([w.upper(), w.lower(), mixed])
                out.append(ind + w2 + s[len(w):])
            else:
                out.append(l)
        else:
            out.append(l)
    return "\n".join(out)


def norm_crlf(t):
    return [l.rstrip("\r") for l in t.split("\n") if l.strip() != ""]


def run(seed, tier, stats, pid=None):
    import logging
    logging.disable(logging.CRITICAL)
    rnd = random.Random(seed)
    n_gen = 40 if tier == "quick" else 400
    tmp = tempfile.mkdtemp(prefix="pyvc_layout_")
    violations, samples = [], []
    cases = 0
    distinct = set()
    try:
        from cminx.config import Settings
        st = Settings()
        g = gen_cmake.Gen(rnd)
        texts = [(f"gen{i}", g.module()) for i in range(n_gen)]
        for f in corpus_files()[:12]:
            try:
                texts.append((os.path.relpath(f, "/"), open(f, encoding="utf-8").read()))
            except Exception:
                pass
        for name, text in texts:
            ref, ex = run_one(text, st, stats, {"driver": "layout", "input": name, "variant": "reference"}, tmp)
            cases += 1
            if ex is not None:
                continue
            kinds = ("space", "comments", "reindent", "case", "case_upper", "case_mixed", "crlf", "inline") \
                if name.startswith("gen") else ("reindent", "case", "case_upper", "case_mixed", "crlf")
            # (line-wise edits are only safe on the generator's own line structure)
            for kind in kinds:
                v = text.replace("\n", "\r\n") if kind == "crlf" else variant(text, rnd, kind)
                case = {"driver": "layout", "input": name, "variant": kind, "text": v if len(v) < 3000 else None,
                        "reference_text": text if len(text) < 3000 else None}
                out, ex2 = run_one(v, st, stats, case, tmp)
                cases += 1
                distinct.add((name, kind))
                same = (out is not None) and (norm_crlf(out) == norm_crlf(ref) if kind == "crlf" else out == ref)
                if not same:
                    violations.append({"function": "cminx.documenter:Documenter.process", "clause": "C04-layout-" + kind,
                                       "case": case, "observed": (out or repr(ex2))[:400], "expected": ref[:400]})
            if len(samples) < 2:
                samples.append({"input": name, "variant_space": variant(text, rnd, "space")[:400]})
    finally:
        shutil.rmtree(tmp, ignore_errors=True)
        logging.disable(logging.NOTSET)
    return {"cases": cases, "distinct": len(distinct), "samples": samples, "violations": violations,
            "bound": f"{len(texts)} modules x 8 variant kinds (inter-token white space, comments of 6 shapes, tokens before a doccomment on its line, uniform "
                     f"doccomment re-indentation, command-name case, CRLF), seed {seed}"}


def replay_case(case, stats):
    from cminx.config import Settings
    tmp = tempfile.mkdtemp(prefix="pyvc_replay_")
    try:
        ref, _ = run_one(case.get("reference_text") or "", Settings(), stats, case, tmp)
        out, ex = run_one(case.get("text") or "", Settings(), stats, case, tmp)
        kind = case.get("variant")
        same = out is not None and (norm_crlf(out) == norm_crlf(ref) if kind == "crlf" else out == ref)
        if not same:
            stats.violations.append({"function": "cminx.documenter:Documenter.process", "clause": "C04-layout-" + str(kind),
                                     "case": case, "observed": (out or repr(ex))[:400]})
    finally:
        shutil.rmtree(tmp, ignore_errors=True)
