"""Bounded driver for directory mode: generated directory trees x option combinations through the real cminx.main
(in process, run-time contract wrappers on) and through a subprocess (hash seed / cwd variation).  Independent
oracles compute the expected page set, toctrees and exclusions.  Labelled bounded stand-in, not proof."""
import contextlib
import hashlib
import io
import os
import random
import shutil
import subprocess
import sys
import tempfile

import pathspec

CMAKE_BODY = """#[[[
# Doc of {name}
#]]
function({name} a)
endfunction()
set(V_{name} 1)
"""


def make_tree(base, rnd, depth=3):
    """-> list of relative file paths created"""
    files = []
    names_f = ["a.cmake", "b.cmake", "x1.cmake", "x2.cmake", "x3.cmake", "Upper.CMake", "notes.txt", "dot.name.cmake",
               "dash-name.cmake", "cmake", "README"]
    names_d = ["ex1", "ex2", "ex3", "keep", "sub.dir", "only_txt", "deep", "empty"]

    def fill(rel, d):
        os.makedirs(os.path.join(base, rel), exist_ok=True)
        k = rnd.randint(0, 5)
        chosen = rnd.sample(names_f, k)
        if d == 0 and not any(c.endswith(".cmake") for c in chosen):
            chosen.append("top.cmake")
        for f in chosen:
            p = os.path.join(rel, f)
            with open(os.path.join(base, p), "w") as fh:
                fh.write(CMAKE_BODY.format(name="f_" + f.replace(".", "_").replace("-", "_")) if not f.endswith(".txt") and f != "README" else "text\n")
            files.append(p)
        if d < depth:
            for sd in rnd.sample(names_d, rnd.randint(0, 3)):
                if sd == "empty":
                    os.makedirs(os.path.join(base, rel, sd), exist_ok=True)
                else:
                    fill(os.path.join(rel, sd), d + 1)
    fill("", 0)
    return files


def is_cmake(name):
    return name.lower().endswith(".cmake")


def expected(root, recursive, auto_exclude, patterns):
    """independent oracle: {relative dir: (sorted subdirs listed, sorted cmake files)} for processed directories"""
    spec = pathspec.PathSpec.from_lines(pathspec.patterns.GitWildMatchPattern, patterns)
    root = os.path.join(os.path.abspath(root), "")
    out = {}

    def keep_file(d, f):
        return not spec.match_file(os.path.join(d, f))

    def has_cmake(d):
        try:
            return any(e.is_file() and e.path.endswith(".cmake") and not spec.match_file(e.path) for e in os.scandir(d))
        except OSError:
            return False

    def visit(d, top):
        entries = sorted(os.listdir(d))
        files = [e for e in entries if os.path.isfile(os.path.join(d, e)) and keep_file(d, e)]
        dirs = [e for e in entries if os.path.isdir(os.path.join(d, e)) and not spec.match_file(os.path.join(d, e, ""))]
        if auto_exclude:
            dirs = [e for e in dirs if has_cmake(os.path.join(d, e))]
        skipped = auto_exclude and not any(f.endswith(".cmake") for f in files)
        rel = os.path.relpath(d, root)
        if not skipped:
            out[rel] = (dirs if recursive else [], [f for f in files if is_cmake(f)])
        if recursive:
            for e in dirs:
                visit(os.path.join(d, e), False)
    if spec.match_file(root):
        return out
    visit(root, True)
    return out


def snapshot(d):
    res = {}
    for r, _ds, fs in os.walk(d):
        for f in fs:
            p = os.path.join(r, f)
            with open(p, "rb") as fh:
                res[os.path.relpath(p, d)] = hashlib.sha1(fh.read()).hexdigest()
    return res


def toctree_entries(text):
    lines = text.split("\n")
    out = []
    seen = False
    for l in lines:
        if l.strip().startswith(".. toctree::"):
            seen = True
            continue
        if seen and l.startswith("   ") and not l.strip().startswith(":"):
            out.append(l.strip())
    return out


def run_main(args, cwd=None):
    import cminx
    old = os.getcwd()
    buf = io.StringIO()
    try:
        if cwd:
            os.chdir(cwd)
        with contextlib.redirect_stdout(buf), contextlib.redirect_stderr(io.StringIO()):
            try:
                cminx.main(args)
                code = 0
            except SystemExit as ex:
                code = ex.code if isinstance(ex.code, int) else 1
    finally:
        os.chdir(old)
    return code, buf.getvalue()


FIXED_SHAPES = [
    # a directory without CMake files of its own above one that has some (auto-exclusion must not descend)
    (["top.cmake", "only_txt/notes.txt", "only_txt/deep/a.cmake", "keep/b.cmake", "keep/sub.dir/x1.cmake"], True, True, []),
    # several excluded siblings next to each other, every CMake file of a directory excluded
    (["top.cmake", "ex1/a.cmake", "ex2/a.cmake", "ex3/a.cmake", "keep/x1.cmake", "keep/x2.cmake"], True, True, ["ex*/", "x*.cmake"]),
    # mixed-case extensions, names with dots and dashes, non-recursive run over a tree with sub-directories
    (["a.cmake", "Upper.CMake", "dot.name.cmake", "dash-name.cmake", "keep/b.cmake"], False, True, []),
    (["a.cmake", "keep/b.cmake", "keep/deep/x1.cmake", "empty/"], True, False, ["deep/"]),
    # F19: no -r, auto-exclusion on, every CMake file of the input directory excluded: nothing below it may be documented
    (["x1.cmake", "x2.cmake", "keep/b.cmake"], False, True, ["x*.cmake"]),
]


def make_fixed(base, files):
    for f in files:
        p = os.path.join(base, f)
        if f.endswith("/"):
            os.makedirs(p, exist_ok=True)
            continue
        os.makedirs(os.path.dirname(p), exist_ok=True)
        with open(p, "w") as fh:
            name = os.path.basename(f)
            fh.write(CMAKE_BODY.format(name="f_" + name.replace(".", "_").replace("-", "_")) if not name.endswith(".txt") else "text\n")


def check_case(tmp, rnd, stats, case_id, violations, tier):
    import logging
    tree = os.path.join(tmp, f"in{case_id}", "proj")
    os.makedirs(tree)
    if case_id < len(FIXED_SHAPES):
        files, recursive, auto, fixed_pats = FIXED_SHAPES[case_id]
        make_fixed(tree, files)
        rnd.random(), rnd.random()
    else:
        make_tree(tree, rnd)
        recursive = rnd.random() < 0.7
        auto = rnd.random() < 0.6
        fixed_pats = None
    pats = rnd.choice([[], ["ex*/"], ["x*.cmake"], ["ex*/", "x*.cmake"], ["only_txt/"], ["*.cmake"], ["deep/"], ["sub.dir/*.cmake"]])
    if fixed_pats is not None:
        pats = fixed_pats
    prefix = rnd.choice([None, "Pfx"])
    sep = rnd.choice([".", ".", "::", "-"])
    cfg = os.path.join(tmp, f"cfg{case_id}.yaml")
    with open(cfg, "w") as f:
        f.write("input:\n  auto_exclude_directories_without_cmake: %s\nrst:\n  module_path_separator: '%s'\n"
                "logging:\n  version: 1\n" % ("true" if auto else "false", sep))
    out = os.path.join(tmp, f"out{case_id}")
    args = ["-s", cfg, "-o", out] + (["-r"] if recursive else []) + sum([["-e", p] for p in pats], []) + \
           (["-p", prefix] if prefix else []) + [tree]
    case = {"driver": "tree", "case": case_id, "args": args[2:], "recursive": recursive, "auto_exclude": auto,
            "patterns": pats, "prefix": prefix, "separator": sep}
    stats.current_case = case
    before = snapshot(tree)
    code, _ = run_main(args)
    stats.current_case = None
    after = snapshot(tree)

    def bad(pid, what):
        violations.append({"function": "cminx:document", "clause": pid, "case": case, "observed": what})
    if code != 0:
        bad("C13", f"exit status {code}")
        return case
    if before != after:
        bad("C18", "input tree changed")
    exp = expected(tree, recursive, auto, pats)
    exp_files = set()
    for rel, (dirs, files) in exp.items():
        exp_files.add(os.path.normpath(os.path.join(rel, "index.rst")))
        for f in files:
            exp_files.add(os.path.normpath(os.path.join(rel, ".".join(f.split(".")[:-1]) + ".rst")))
    got = set(snapshot(out).keys()) if os.path.isdir(out) else set()
    if got != exp_files:
        bad("C13", {"unexpected": sorted(got - exp_files), "missing": sorted(exp_files - got)})
        if any(p for p in pats):
            bad("C15", {"unexpected": sorted(got - exp_files), "missing": sorted(exp_files - got)})
    # C14: toctrees closed and complete, titles
    top_name = prefix or "proj"
    for rel, (dirs, files) in exp.items():
        p = os.path.join(out, rel, "index.rst")
        if not os.path.isfile(p):
            continue
        text = open(p).read()
        want = [d + "/index.rst" for d in sorted(dirs) if os.path.normpath(os.path.join(rel, d)) in exp] + \
               [".".join(f.split(".")[:-1]) for f in sorted(files)]
        have = toctree_entries(text)
        if sorted(have) != sorted(want) or len(set(have)) != len(have):
            bad("C14", {"index": rel, "have": have, "want": want})
        title = text.split("\n")[2] if len(text.split("\n")) > 2 else ""
        want_title = top_name if rel == "." else top_name + sep + rel
        if title != want_title:
            bad("C14", {"index": rel, "title": title, "want": want_title})
        for e in have:
            tgt = os.path.join(out, rel, e if e.endswith("index.rst") else e + ".rst")
            if not os.path.isfile(tgt):
                bad("C14", {"index": rel, "dangling": e})
    # C14 (consequence): every generated file is reachable from the top index.rst through the toctrees actually written
    if os.path.isfile(os.path.join(out, "index.rst")):
        reach, todo = set(), ["index.rst"]
        while todo:
            cur = os.path.normpath(todo.pop())
            if cur in reach or not os.path.isfile(os.path.join(out, cur)):
                continue
            reach.add(cur)
            if os.path.basename(cur) == "index.rst":
                for e in toctree_entries(open(os.path.join(out, cur)).read()):
                    todo.append(os.path.join(os.path.dirname(cur), e if e.endswith("index.rst") else e + ".rst"))
        unreachable = sorted(got - reach)
        if unreachable:
            bad("C14", {"unreachable_from_top_index": unreachable[:6]})
    # C12: title and module name of every page = prefix . relative path without the .cmake extension
    for rel, (dirs, files) in exp.items():
        for f in files:
            page = os.path.join(out, rel, ".".join(f.split(".")[:-1]) + ".rst")
            if not os.path.isfile(page):
                continue
            ls = open(page).read().split("\n")
            relp = os.path.normpath(os.path.join(rel, f))
            want_name = top_name + sep + (relp[:-6] if relp.endswith(".cmake") else relp)
            if len(ls) < 6 or ls[2] != want_name or ls[1] != "#" * len(want_name) or ls[3] != ls[1] or \
                    ".. module:: " + want_name not in ls[:8]:
                bad("C12", {"page": relp, "title": ls[2] if len(ls) > 2 else None, "want": want_name})
    # C13: page content equals the single-file run apart from title / module name
    for rel, (dirs, files) in list(exp.items())[:2]:
        for f in files[:1]:
            page = os.path.join(out, rel, ".".join(f.split(".")[:-1]) + ".rst")
            if not os.path.isfile(page):
                continue
            o2 = os.path.join(tmp, f"single{case_id}")
            code2, _ = run_main(["-s", cfg, "-o", o2] + sum([[] for _ in ()], []) + [os.path.join(tree, rel, f)])
            sp = os.path.join(o2, ".".join(f.split(".")[:-1]) + ".rst")
            if code2 == 0 and os.path.isfile(sp):
                def body(t):
                    ls = t.split("\n")
                    return [l for l in ls[4:] if not l.startswith(".. module::")]
                if body(open(page).read()) != body(open(sp).read()):
                    bad("C13", {"page": os.path.join(rel, f), "differs_from_single_file_run": True})
            shutil.rmtree(o2, ignore_errors=True)
    # C18: stdout mode prints exactly the pages of the top directory run, in sorted order
    code3, txt = run_main(["-s", cfg] + (["-r"] if recursive else []) + sum([["-e", p] for p in pats], []) +
                          (["-p", prefix] if prefix else []) + [tree])
    pages = []
    for rel in sorted(exp, key=lambda r: (r != ".", r)):
        pass
    order = []

    def walk_order(rel):
        dirs, files = exp.get(rel, ([], []))
        for f in sorted(files):
            order.append(os.path.join(out, rel, ".".join(f.split(".")[:-1]) + ".rst"))
    # os.walk order: top-down, subdirectories in sorted(listing) order is not guaranteed: compare as multiset of pages
    for rel in exp:
        walk_order(rel)
    want_pages = sorted(open(p).read() + "\n\n" for p in order if os.path.isfile(p))
    got_concat = txt
    for pg in want_pages:
        if pg not in got_concat:
            bad("C18", {"stdout_missing_page": pg[:60]})
            break
    if sum(len(pg) for pg in want_pages) != len(got_concat):
        bad("C18", {"stdout_len": len(got_concat), "pages_len": sum(len(pg) for pg in want_pages)})
    # C17: same bytes from another cwd, for a moved copy of the tree, and (thorough) another hash seed
    out2 = os.path.join(tmp, f"outB{case_id}")
    moved = os.path.join(tmp, f"moved{case_id}", "elsewhere", "proj")
    shutil.copytree(tree, moved)
    args2 = ["-s", cfg, "-o", out2] + (["-r"] if recursive else []) + sum([["-e", p] for p in pats], []) + \
            (["-p", prefix] if prefix else []) + ["proj"]
    run_main(args2, cwd=os.path.dirname(moved))
    a, b = snapshot(out) if os.path.isdir(out) else {}, snapshot(out2) if os.path.isdir(out2) else {}
    if a != b:
        bad("C17", {"differs_after_move_and_cwd_change": sorted(set(a.items()) ^ set(b.items()))[:4]})
    for d in (out, out2, os.path.dirname(os.path.dirname(moved)), os.path.dirname(tree)):
        shutil.rmtree(d, ignore_errors=True)
    return case


def sub_main(args, cwd, hashseed, env_extra=None):
    """cminx.main in a fresh interpreter (hash seed, no leftover state)"""
    env = dict(os.environ)
    env["PYTHONHASHSEED"] = str(hashseed)
    env["HOME"] = cwd
    env["XDG_CONFIG_HOME"] = os.path.join(cwd, ".nocfg")
    env.update(env_extra or {})
    code = "import sys,cminx; cminx.main(sys.argv[1:])"
    p = subprocess.run([sys.executable, "-W", "ignore", "-c", code] + args, cwd=cwd, env=env, capture_output=True,
                       text=True, timeout=120)
    return p.returncode, p.stdout, p.stderr


def scenarios(tmp, rnd, stats, violations, tier):
    """fixed multi-step scenarios the random trees do not reach"""
    n = 0

    def bad(pid, case, what):
        violations.append({"function": "cminx:document", "clause": pid, "case": case, "observed": what})
    cfg = os.path.join(tmp, "sc.yaml")
    with open(cfg, "w") as f:
        f.write("logging:\n  version: 1\n")
    # --- S1 (C17): several inputs in one run == each alone
    base = os.path.join(tmp, "s1")
    for d in ("alpha", "beta"):
        os.makedirs(os.path.join(base, d, "sub"))
        for f in ("one.cmake", "sub/two.cmake"):
            with open(os.path.join(base, d, f), "w") as fh:
                fh.write(CMAKE_BODY.format(name=d + "_" + f.replace("/", "_").replace(".", "_")))
    with open(os.path.join(base, "lone.cmake"), "w") as fh:
        fh.write(CMAKE_BODY.format(name="lone"))
    case = {"driver": "tree", "scenario": "S1 several inputs in one run"}
    stats.current_case = case
    both = os.path.join(tmp, "s1_both")
    run_main(["-s", cfg, "-r", "-o", both, os.path.join(base, "alpha"), os.path.join(base, "beta"),
              os.path.join(base, "lone.cmake")])
    alone = os.path.join(tmp, "s1_alone")
    run_main(["-s", cfg, "-r", "-o", alone, os.path.join(base, "beta")])
    lone = os.path.join(tmp, "s1_lone")
    run_main(["-s", cfg, "-r", "-o", lone, os.path.join(base, "lone.cmake")])
    sb, sa, sl = snapshot(both), snapshot(alone), snapshot(lone)
    # alpha and beta share file names: compare beta's pages via a run in the opposite order
    rev = os.path.join(tmp, "s1_rev")
    run_main(["-s", cfg, "-r", "-o", rev, os.path.join(base, "beta"), os.path.join(base, "alpha")])
    beta_last = os.path.join(tmp, "s1_bl")
    run_main(["-s", cfg, "-r", "-o", beta_last, os.path.join(base, "alpha"), os.path.join(base, "beta")])
    if snapshot(beta_last) != sa:
        bad("C17", case, "pages of 'beta' differ when 'alpha' is documented before it in the same run")
    if sb.get("lone.rst") != sl.get("lone.rst"):
        bad("C17", case, "page of a lone file differs when directories are documented before it")
    # C12: the default prefix is the name of the page's OWN input directory; a lone file is named by its base name only

    def title_of(path):
        try:
            return open(path).read().split("\n")[2]
        except (OSError, IndexError):
            return None
    for page, want_title in ((os.path.join(beta_last, "one.rst"), "beta.one"),
                             (os.path.join(beta_last, "sub", "two.rst"), "beta.sub/two"),
                             (os.path.join(both, "lone.rst"), "lone")):
        if title_of(page) != want_title:
            bad("C12", case, {"page": os.path.relpath(page, tmp), "title": title_of(page), "want": want_title})
    n += 1
    # --- S2 (C17): hash seeds with an order-sensitive (negated) pattern set
    s2 = os.path.join(tmp, "s2", "proj")
    os.makedirs(s2)
    for f in ("api.cmake", "keep_internal.cmake", "x_internal.cmake"):
        with open(os.path.join(s2, f), "w") as fh:
            fh.write(CMAKE_BODY.format(name=f.replace(".", "_")))
    case = {"driver": "tree", "scenario": "S2 hash seeds, negated exclude pattern"}
    outs = []
    for hs in ((1, 2, 3) if tier == "quick" else range(1, 9)):
        o = os.path.join(tmp, f"s2_out{hs}")
        sub_main(["-s", cfg, "-o", o, "-e", "*_internal.cmake", "-e", "!keep_internal.cmake", s2], tmp, hs)
        outs.append(snapshot(o) if os.path.isdir(o) else {})
    if any(o != outs[0] for o in outs):
        bad("C17", case, "output differs between PYTHONHASHSEED values")
    n += 1
    # --- S3 (C15): relative input, pattern that matches only through the absolute path
    s3 = os.path.join(tmp, "vendor_area")
    os.makedirs(s3)
    with open(os.path.join(s3, "mod.cmake"), "w") as fh:
        fh.write(CMAKE_BODY.format(name="mod"))
    for pat in (os.path.join(s3, "mod.cmake"), "vendor_area"):
        for inp in ("mod.cmake", os.path.join(s3, "mod.cmake")):
            case = {"driver": "tree", "scenario": "S3 excluded input", "pattern": pat, "input": inp}
            o = os.path.join(tmp, "s3_out")
            shutil.rmtree(o, ignore_errors=True)
            run_main(["-s", cfg, "-o", o, "-e", pat, inp], cwd=s3)
            if os.path.isdir(o) and snapshot(o):
                bad("C15", case, {"excluded input produced output": sorted(snapshot(o))})
            n += 1
    # --- S4 (C18): a symlinked .cmake file pointing outside the tree; unrelated files in the output directory
    s4 = os.path.join(tmp, "s4")
    os.makedirs(os.path.join(s4, "world", "shared"))
    os.makedirs(os.path.join(s4, "world", "proj"))
    with open(os.path.join(s4, "world", "shared", "common.cmake"), "w") as fh:
        fh.write(CMAKE_BODY.format(name="common"))
    with open(os.path.join(s4, "world", "proj", "own.cmake"), "w") as fh:
        fh.write(CMAKE_BODY.format(name="own"))
    os.symlink(os.path.join(s4, "world", "shared", "common.cmake"), os.path.join(s4, "world", "proj", "common.cmake"))
    o = os.path.join(s4, "world", "out")
    os.makedirs(o)
    with open(os.path.join(o, "unrelated.txt"), "w") as fh:
        fh.write("keep me")
    case = {"driver": "tree", "scenario": "S4 symlinked file, pre-populated output directory"}
    before = {k: v for k, v in snapshot(os.path.join(s4, "world")).items() if not k.startswith("out/")}
    keep = snapshot(o).get("unrelated.txt")
    stats.current_case = case
    run_main(["-s", cfg, "-o", o, os.path.join(s4, "world", "proj")])
    after = {k: v for k, v in snapshot(os.path.join(s4, "world")).items() if not k.startswith("out/")}
    if before != after:
        bad("C18", case, {"outside output dir": sorted(set(after.items()) ^ set(before.items()))[:4]})
    if snapshot(o).get("unrelated.txt") != keep:
        bad("C18", case, "unrelated file in the output directory changed")
    if set(snapshot(o)) != {"unrelated.txt", "index.rst", "own.rst", "common.rst"}:
        bad("C13", case, {"files": sorted(snapshot(o))})
    n += 1
    # --- S5 (C18): stdout mode with the DEFAULT logging configuration and a matching exclude filter
    s5 = os.path.join(tmp, "s5", "proj")
    os.makedirs(os.path.join(s5, "skipdir"))
    for f in ("a.cmake", "skip_me.cmake", "skipdir/b.cmake"):
        with open(os.path.join(s5, f), "w") as fh:
            fh.write(CMAKE_BODY.format(name=f.replace("/", "_").replace(".", "_")))
    case = {"driver": "tree", "scenario": "S5 stdout mode, default logging, exclude filters"}
    o5 = os.path.join(tmp, "s5_out")
    c1, _o, _e = sub_main(["-r", "-o", o5, "-e", "skip_*", "-e", "skipdir/", s5], tmp, 1)
    c2, txt, _e = sub_main(["-r", "-e", "skip_*", "-e", "skipdir/", s5], tmp, 1)
    want = ""
    for f in sorted(k for k in (snapshot(o5) if os.path.isdir(o5) else {}) if not k.endswith("index.rst")):
        want += open(os.path.join(o5, f)).read() + "\n\n"
    if txt != want:
        bad("C18", case, {"stdout": txt[:300], "expected_pages": want[:120]})
    n += 1
    # --- S6 (C12/C14): the default prefix is the NAME of the input directory however the directory is spelled
    s6 = os.path.join(tmp, "s6", "projdir")
    os.makedirs(os.path.join(s6, "sub"))
    for f in ("a.cmake", "sub/b.cmake"):
        with open(os.path.join(s6, f), "w") as fh:
            fh.write(CMAKE_BODY.format(name=f.replace("/", "_").replace(".", "_")))
    os.makedirs(os.path.join(os.path.dirname(s6), "other"))
    for spelled, cwd in ((".", s6), ("projdir/", os.path.dirname(s6)), ("../projdir", os.path.join(os.path.dirname(s6), "other")),
                         (os.path.join(s6, ""), tmp), ("./projdir/.", os.path.dirname(s6))):
        case = {"driver": "tree", "scenario": "S6 default prefix", "input": spelled}
        o6 = os.path.join(tmp, "s6_out")
        shutil.rmtree(o6, ignore_errors=True)
        stats.current_case = case
        run_main(["-s", cfg, "-r", "-o", o6, spelled], cwd=cwd)
        for page, want_title in (("index.rst", "projdir"), ("a.rst", "projdir.a"), (os.path.join("sub", "b.rst"), "projdir.sub/b"),
                                 (os.path.join("sub", "index.rst"), "projdir.sub")):
            try:
                got_title = open(os.path.join(o6, page)).read().split("\n")[2]
            except (OSError, IndexError):
                got_title = None
            if got_title != want_title:
                bad("C14" if page.endswith("index.rst") else "C12", case, {"page": page, "title": got_title, "want": want_title})
        n += 1
    stats.current_case = None
    return n


def run(seed, tier, stats, pid=None):
    import logging
    logging.disable(logging.CRITICAL)
    rnd = random.Random(seed)
    n = 25 if tier == "quick" else 250
    tmp = tempfile.mkdtemp(prefix="pyvc_tree_")
    violations = []
    samples = []
    cases = 0
    try:
        for i in range(n):
            c = check_case(tmp, rnd, stats, i, violations, tier)
            cases += 1
            if len(samples) < 3:
                samples.append(c)
        cases += scenarios(tmp, rnd, stats, violations, tier)
    finally:
        shutil.rmtree(tmp, ignore_errors=True)
        logging.disable(logging.NOTSET)
    want = {"C12": ("C12",), "C13": ("C13",), "C14": ("C14",), "C15": ("C15", "C13"), "C17": ("C17",),
            "C18": ("C18",)}.get(pid)
    if want is not None:
        violations = [v for v in violations if v["clause"] in want]
    return {"cases": cases, "distinct": cases, "samples": samples, "violations": violations,
            "bound": f"{n} generated trees (depth <= 3, <= 6 files and <= 3 sub-directories per directory, seed {seed}) x "
                     f"random options (recursive, auto-exclusion, 8 pattern sets, prefix); each also run from another "
                     f"working directory on a moved copy, without -o, and per-file"}


def replay_case(case, stats):
    rnd = random.Random(1)
    print("replay of tree cases re-runs the driver with the recorded seed; case:", case)
