"""Bounded driver for C19 (no verifier for CMake script exists here): the real cmake -P includes the real
cmake/cminx.cmake and calls cminx_gen_rst with CMINX_EXECUTABLE bound to a recorder that logs its argv and runs the
working-tree CMinx.  Run-time contract on the real function:  argv == [exe, input] ++ (['-r'] iff IS_DIRECTORY(input))
++ extra arguments verbatim ++ ['-o', output];  output tree == direct CLI run;  a failing CMinx is fatal."""
import hashlib
import json
import os
import shutil
import subprocess
import sys
import tempfile


def cmake_dir():
    d = os.environ.get("CMINX_CMAKE")
    if d:
        return d
    return os.path.join(os.path.dirname(os.environ.get("CMINX_SRC", "/repo/src").rstrip("/")), "cmake")


def snapshot(d):
    res = {}
    for r, _ds, fs in os.walk(d):
        for f in fs:
            p = os.path.join(r, f)
            with open(p, "rb") as fh:
                res[os.path.relpath(p, d)] = hashlib.sha1(fh.read()).hexdigest()
    return res


def run(seed, tier, stats, pid=None):
    tmp = tempfile.mkdtemp(prefix="pyvc_cmake_")
    violations, samples = [], []
    cases = 0
    try:
        src = os.environ.get("CMINX_SRC", "/repo/src")
        rec = os.path.join(tmp, "cminx_recorder")
        log = os.path.join(tmp, "argv.json")
        with open(rec, "w") as f:
            f.write(f"#!{sys.executable}\nimport sys, json, os\nsys.path.insert(0, {src!r})\n"
                    f"json.dump(sys.argv, open({log!r}, 'w'))\nimport warnings; warnings.simplefilter('ignore')\n"
                    f"import cminx\ncminx.main(sys.argv[1:])\n")
        os.chmod(rec, 0o755)
        # inputs
        flat = os.path.join(tmp, "flat")
        nested_ = os.path.join(tmp, "nested")
        os.makedirs(flat)
        os.makedirs(os.path.join(nested_, "sub", "deep"))
        body = "#[[[\n# doc\n#]]\nfunction(f a)\nendfunction()\n"
        for p in (os.path.join(flat, "a.cmake"), os.path.join(flat, "gen_x.cmake"), os.path.join(nested_, "top.cmake"),
                  os.path.join(nested_, "sub", "s.cmake"), os.path.join(nested_, "sub", "deep", "d.cmake")):
            with open(p, "w") as fh:
                fh.write(body)
        single = os.path.join(tmp, "single.cmake")
        with open(single, "w") as fh:
            fh.write(body)
        broken = os.path.join(tmp, "broken.cmake")
        with open(broken, "w") as fh:
            fh.write("function(f a\n")
        cfg = os.path.join(tmp, "s.yaml")
        with open(cfg, "w") as fh:
            fh.write("rst:\n  prefix: FromFile\n")
        missing = os.path.join(tmp, "does_not_exist")
        linked_dir = os.path.join(tmp, "docs_src")
        os.symlink(os.path.join(nested_, "sub"), linked_dir)
        linked_file = os.path.join(tmp, "latest.cmake")
        os.symlink(single, linked_file)
        inputs = [("file", single, True), ("flat", flat, True), ("nested", nested_, True), ("missing", missing, False),
                  ("broken", broken, False), ("linked_dir", linked_dir, False), ("linked_file", linked_file, False)]
        extras = [[], ["-p", "Pfx"], ["-e", "gen_*"], ["-s", cfg], ["-p", "Pfx", "-e", "gen_*"],
                  ["-e", "gen_*", "-e", "old/"], ["-p", "api", "-e", "api"], ["-p", "Pfx", "-e", "gen_*", "-s", cfg]]
        if tier == "quick":
            extras = extras[:7]
        for iname, ipath, ok in inputs:
            for ex in (extras if ok else extras[:2]):
                out_c = os.path.join(tmp, "out_cmake")
                out_d = os.path.join(tmp, "out_direct")
                shutil.rmtree(out_c, ignore_errors=True)
                shutil.rmtree(out_d, ignore_errors=True)
                if os.path.exists(log):
                    os.unlink(log)
                script = os.path.join(tmp, "drive.cmake")
                args = " ".join('"%s"' % a for a in ex)
                with open(script, "w") as fh:
                    fh.write(f'set(CMINX_EXECUTABLE "{rec}")\ninclude("{os.path.join(cmake_dir(), "cminx.cmake")}")\n'
                             f'cminx_gen_rst("{ipath}" "{out_c}" {args})\nmessage(STATUS "after")\n')
                p = subprocess.run(["cmake", "-P", script], capture_output=True, text=True, cwd=tmp, timeout=120)
                argv = json.load(open(log)) if os.path.exists(log) else None
                want = [rec, ipath] + (["-r"] if os.path.isdir(ipath) else []) + ex + ["-o", out_c]
                case = {"driver": "cmake", "input": iname, "extra": ex}
                cases += 1
                if argv != want:
                    violations.append({"function": "cmake/cminx.cmake:cminx_gen_rst", "clause": "C19-argv", "case": case,
                                       "observed": argv, "expected": want})
                d = subprocess.run([rec, ipath] + (["-r"] if os.path.isdir(ipath) else []) + ex + ["-o", out_d],
                                   capture_output=True, text=True, cwd=tmp, timeout=120)
                sc = snapshot(out_c) if os.path.isdir(out_c) else {}
                sd = snapshot(out_d) if os.path.isdir(out_d) else {}
                if sc != sd:
                    violations.append({"function": "cmake/cminx.cmake:cminx_gen_rst", "clause": "C19-tree", "case": case,
                                       "observed": sorted(set(sc.items()) ^ set(sd.items()))[:4]})
                if (d.returncode != 0) != (p.returncode != 0) or (d.returncode != 0 and "after" in p.stdout + p.stderr):
                    violations.append({"function": "cmake/cminx.cmake:cminx_gen_rst", "clause": "C19-fatal", "case": case,
                                       "observed": {"cli": d.returncode, "cmake": p.returncode}})
                if len(samples) < 3:
                    samples.append({"input": iname, "extra": ex, "argv": argv})
    finally:
        shutil.rmtree(tmp, ignore_errors=True)
    return {"cases": cases, "distinct": cases, "samples": samples, "violations": violations,
            "bound": "7 inputs (single file, flat and nested directory, missing path, file with a syntax error, symlinked directory and file) x up to 8 "
                     "extra-argument lists (none, one, two and three flags with values, repeated flags, a value equal to "
                     "an earlier token)"}


def replay_case(case, stats):
    print("cmake cases are deterministic: re-run ./check C19; case:", case)
