"""Bounded fault-injection driver for C06: every fault kind at every position outside comments of small valid
modules, through the real cminx.main: non-zero exit (exception) and no .rst for the faulty file.  Labelled bounded."""
import os
import random
import shutil
import tempfile

from . import gen_cmake
from .drv_tree import run_main

FAULTS = [("stray_quote", '"'), ("bad_escape", "\\q"), ("unterminated_bracket_comment", "#[[ never closed"),
          ("unterminated_bracket_comment_eq", "#[=[ never closed"), ("extra_paren", ")"), ("open_paren", "("),
          ("bare_word", " stray_word "), ("backslash_eof", None)]


def positions_outside_comments(text):
    """offsets at line starts and ends of lines that are commands (not inside doccomments / comments)"""
    pos = []
    off = 0
    in_doc = False
    for line in text.split("\n"):
        s = line.strip()
        if s.startswith("#[[["):
            in_doc = True
        if not in_doc and s and not s.startswith("#"):
            pos.append(off)                       # before the command
            pos.append(off + len(line))           # after the command
            if "(" in line:
                pos.append(-(off + line.index("(") + 1))   # inside the argument list (negative = inside)
        if in_doc and s.endswith("#]]"):
            in_doc = False
        off += len(line) + 1
    return sorted(set(pos))


def run(seed, tier, stats, pid=None):
    import logging
    logging.disable(logging.CRITICAL)
    rnd = random.Random(seed)
    n_mod = 6 if tier == "quick" else 40
    tmp = tempfile.mkdtemp(prefix="pyvc_faults_")
    violations, samples = [], []
    cases = 0
    distinct = set()
    try:
        cfg = os.path.join(tmp, "cfg.yaml")
        with open(cfg, "w") as f:
            f.write("logging:\n  version: 1\n")
        g = gen_cmake.Gen(rnd)
        mods = [g.module(3) for _ in range(n_mod)]
        mods.append("function(f a)\nendfunction()\nset(X \"v\")\n")
        for mi, text in enumerate(mods):
            # the unmodified module must be fine (otherwise the generator is at fault)
            inp = os.path.join(tmp, f"m{mi}.cmake")
            with open(inp, "w") as fh:
                fh.write(text)
            out = os.path.join(tmp, f"o{mi}")
            c0, _ = run_main(["-s", cfg, "-o", out, inp])
            if c0 != 0 or not os.path.isfile(os.path.join(out, f"m{mi}.rst")):
                continue
            shutil.rmtree(out, ignore_errors=True)
            poss = positions_outside_comments(text)
            if tier == "quick" and len(poss) > 10:
                poss = rnd.sample(poss, 10)
            for fname, ftext in FAULTS:
                for p0 in (poss if ftext is not None else [len(text)]):
                    inside = p0 < 0
                    p = abs(p0)
                    if fname == "bare_word" and inside:
                        continue        # a word inside an argument list is simply one more argument
                    bad_text = text[:p] + ftext + text[p:] if ftext is not None else text.rstrip("\n") + "\nmessage(x\\"
                    if fname.startswith("unterminated") and "]]" in text[p:].split("#[[[")[0] and False:
                        continue
                    with open(inp, "w") as fh:
                        fh.write(bad_text)
                    case = {"driver": "faults", "fault": fname, "position": p, "module": mi,
                            "text": bad_text if len(bad_text) < 2500 else None}
                    stats.current_case = case
                    code = None
                    try:
                        code, _ = run_main(["-s", cfg, "-o", out, inp])
                        raised = False
                    except BaseException as ex:
                        raised = True
                    stats.current_case = None
                    cases += 1
                    distinct.add((mi, fname, p))
                    wrote = os.path.isfile(os.path.join(out, f"m{mi}.rst"))
                    # a stray quote / paren can pair up with an existing one and give a different but VALID file:
                    # only a fault the grammar cannot absorb must fail.  Oracle: cmake itself (-P on a file that
                    # only parses) is not available for arbitrary commands, so use the structural rule below.
                    must_fail = fname in ("bad_escape", "unterminated_bracket_comment", "unterminated_bracket_comment_eq",
                                          "backslash_eof", "bare_word", "extra_paren", "open_paren", "stray_quote")
                    if fname in ("stray_quote",) and bad_text.count('"') % 2 == 0:
                        must_fail = False
                    if fname.startswith("unterminated") and ("]]" in bad_text[p:] or "]=]" in bad_text[p:]):
                        must_fail = False          # an existing ']]' later in the file terminates it: still valid CMake
                    if fname == "open_paren" or fname == "extra_paren":
                        inside = bad_text[:p].count("(") - bad_text[:p].count(")")
                        if fname == "open_paren" and False:
                            must_fail = True
                    if must_fail and (not raised and code == 0 or wrote):
                        violations.append({"function": "cminx:main", "clause": "C06-fault-" + fname, "case": case,
                                           "observed": {"exit": code, "raised": raised, "rst_written": wrote}})
                    shutil.rmtree(out, ignore_errors=True)
            if len(samples) < 2:
                samples.append({"module": text[:300], "positions": poss[:6]})
        # directory runs: a faulty file anywhere in a recursive run must make the whole run fail
        good = "function(ok a)\nendfunction()\n"
        for fname, ftext in FAULTS[:5]:
            for where in ("top", "aaa", "zzz"):
                tree = os.path.join(tmp, "dtree")
                shutil.rmtree(tree, ignore_errors=True)
                for d in ("", "aaa", "mmm", "zzz"):
                    os.makedirs(os.path.join(tree, d), exist_ok=True)
                    with open(os.path.join(tree, d, "good.cmake"), "w") as fh:
                        fh.write(good)
                bad_dir = "" if where == "top" else where
                with open(os.path.join(tree, bad_dir, "broken.cmake"), "w") as fh:
                    fh.write("function(b a)\nendfunction()\n" + ftext + "\nset(X 1)\n")
                out = os.path.join(tmp, "dout")
                shutil.rmtree(out, ignore_errors=True)
                case = {"driver": "faults", "fault": fname, "directory_run": where}
                stats.current_case = case
                raised, code = False, None
                try:
                    code, _ = run_main(["-s", cfg, "-r", "-o", out, tree])
                except BaseException:
                    raised = True
                stats.current_case = None
                cases += 1
                distinct.add(("dir", fname, where))
                wrote = os.path.isfile(os.path.join(out, bad_dir, "broken.rst"))
                if (not raised and code == 0) or wrote:
                    violations.append({"function": "cminx:main", "clause": "C06-dirfault-" + fname, "case": case,
                                       "observed": {"exit": code, "raised": raised, "rst_written": wrote}})
    finally:
        shutil.rmtree(tmp, ignore_errors=True)
        logging.disable(logging.NOTSET)
    return {"cases": cases, "distinct": len(distinct), "samples": samples, "violations": violations,
            "bound": f"{len(mods)} small valid modules x {len(FAULTS)} fault kinds x command-boundary positions "
                     f"(<= 10 sampled per module in the quick tier), seed {seed}"}


def replay_case(case, stats):
    tmp = tempfile.mkdtemp(prefix="pyvc_replay_")
    try:
        inp = os.path.join(tmp, "m.cmake")
        with open(inp, "w") as fh:
            fh.write(case.get("text") or "")
        cfg = os.path.join(tmp, "cfg.yaml")
        with open(cfg, "w") as f:
            f.write("logging:\n  version: 1\n")
        out = os.path.join(tmp, "o")
        raised, code = False, None
        try:
            code, _ = run_main(["-s", cfg, "-o", out, inp])
        except BaseException:
            raised = True
        if (not raised and code == 0) or os.path.isfile(os.path.join(out, "m.rst")):
            stats.violations.append({"function": "cminx:main", "clause": "C06-fault-" + str(case.get("fault")),
                                     "case": case, "observed": {"exit": code, "raised": raised}})
    finally:
        shutil.rmtree(tmp, ignore_errors=True)
