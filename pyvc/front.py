"""Front end: reads the *real* source of the repository on every run and builds the
program model (modules, classes, fields, methods) the symbolic executor works on.

Nothing here is a transcription of the code: the ASTs come from ast.parse of the files
under <src_root>/cminx.  What is dropped when the executor walks them is listed in
DESIGN.md 2.2 (docstrings, annotations-as-types only, logging calls with their
argument expressions)."""
import ast
import os


MODULES = ["cminx/rstwriter.py", "cminx/documentation_types.py", "cminx/aggregator.py",
           "cminx/documenter.py", "cminx/__init__.py", "cminx/config.py",
           "cminx/parser/__init__.py", "cminx/exceptions.py"]


class FuncInfo:
    def __init__(self, module, qualname, node, cls=None):
        self.module = module
        self.qualname = qualname
        self.node = node
        self.cls = cls            # ClassInfo or None
        self.is_static = any(isinstance(d, ast.Name) and d.id == "staticmethod" for d in node.decorator_list)
        self.is_property = any(isinstance(d, ast.Name) and d.id == "property" for d in node.decorator_list)
        self.is_setter = any(isinstance(d, ast.Attribute) and d.attr == "setter" for d in node.decorator_list)

    @property
    def key(self):
        return f"{self.module}:{self.qualname}"

    @property
    def name(self):
        return self.node.name

    def params(self):
        a = self.node.args
        names = [x.arg for x in a.posonlyargs + a.args]
        return names

    def __repr__(self):
        return f"<Func {self.key}>"


class ClassInfo:
    def __init__(self, module, node):
        self.module = module
        self.name = node.name
        self.node = node
        self.bases = []
        for b in node.bases:
            if isinstance(b, ast.Name):
                self.bases.append(b.id)
            elif isinstance(b, ast.Attribute):
                self.bases.append(b.attr)
        self.is_dataclass = any(
            (isinstance(d, ast.Name) and d.id == "dataclass") or
            (isinstance(d, ast.Attribute) and d.attr == "dataclass") or
            (isinstance(d, ast.Call) and getattr(d.func, "id", getattr(d.func, "attr", "")) == "dataclass")
            for d in node.decorator_list)
        self.is_enum = "Enum" in self.bases
        self.methods = {}
        self.setters = {}
        self.own_fields = []      # [(name, annotation ast or None, default ast or None)] in order (dataclass order)
        self.enum_members = {}    # name -> int value
        self.class_attrs = {}     # name -> (annotation, value ast)
        for st in node.body:
            if isinstance(st, ast.FunctionDef):
                fi = FuncInfo(module, f"{node.name}.{st.name}", st, self)
                if fi.is_setter:
                    self.setters[st.name] = fi
                else:
                    self.methods[st.name] = fi
            elif isinstance(st, ast.AnnAssign) and isinstance(st.target, ast.Name):
                if self.is_dataclass:
                    self.own_fields.append((st.target.id, st.annotation, st.value))
                else:
                    self.class_attrs[st.target.id] = (st.annotation, st.value)
            elif isinstance(st, ast.Assign) and len(st.targets) == 1 and isinstance(st.targets[0], ast.Name):
                if self.is_enum and isinstance(st.value, ast.Constant):
                    self.enum_members[st.targets[0].id] = st.value.value
                else:
                    self.class_attrs[st.targets[0].id] = (None, st.value)
        # attributes assigned in __init__ via self.x[: T] = ...
        self.init_fields = []     # [(name, annotation or None)]
        init = self.methods.get("__init__")
        if init is not None:
            seen = set()
            for n in ast.walk(init.node):
                tgt = None
                ann = None
                if isinstance(n, ast.AnnAssign):
                    tgt, ann = n.target, n.annotation
                elif isinstance(n, ast.Assign) and len(n.targets) == 1:
                    tgt = n.targets[0]
                if isinstance(tgt, ast.Attribute) and isinstance(tgt.value, ast.Name) and tgt.value.id == "self":
                    if tgt.attr not in seen:
                        seen.add(tgt.attr)
                        self.init_fields.append((tgt.attr, ann))

    def __repr__(self):
        return f"<Class {self.name}>"


class Program:
    def __init__(self, src_root):
        self.src_root = src_root
        self.modules = {}
        self.sources = {}
        self.classes = {}
        self.functions = {}
        for rel in MODULES:
            path = os.path.join(src_root, rel)
            with open(path, encoding="utf-8") as f:
                text = f.read()
            modname = rel[:-3].replace("/", ".")
            if modname.endswith(".__init__"):
                modname = modname[:-9]
            tree = ast.parse(text, filename=path)
            self.modules[modname] = tree
            self.sources[modname] = (path, text)
            for st in tree.body:
                if isinstance(st, ast.ClassDef):
                    ci = ClassInfo(modname, st)
                    if ci.name in self.classes:
                        raise RuntimeError(f"duplicate class name {ci.name}")
                    self.classes[ci.name] = ci
                    for m in list(ci.methods.values()) + list(ci.setters.values()):
                        k = m.key + (".setter" if m.is_setter else "")
                        self.functions[k] = m
                elif isinstance(st, ast.FunctionDef):
                    fi = FuncInfo(modname, st.name, st)
                    self.functions[fi.key] = fi

    # ---- class helpers
    def mro(self, cname):
        out = []
        todo = [cname]
        while todo:
            c = todo.pop(0)
            if c in out:
                continue
            out.append(c)
            ci = self.classes.get(c)
            if ci is not None:
                todo.extend(ci.bases)
        return out

    def is_subclass(self, c, d):
        return d in self.mro(c)

    def subclasses(self, d):
        return [c for c in self.classes if self.is_subclass(c, d)]

    def find_method(self, cname, mname):
        for c in self.mro(cname):
            ci = self.classes.get(c)
            if ci is not None and mname in ci.methods:
                return ci.methods[mname]
        return None

    def find_setter(self, cname, mname):
        for c in self.mro(cname):
            ci = self.classes.get(c)
            if ci is not None and mname in ci.setters:
                return ci.setters[mname]
        return None

    def dataclass_fields(self, cname):
        """Dataclass __init__ order: base-class fields first (reverse MRO), then own."""
        out = []
        for c in reversed(self.mro(cname)):
            ci = self.classes.get(c)
            if ci is None or not ci.is_dataclass:
                continue
            for (n, ann, dflt) in ci.own_fields:
                out = [x for x in out if x[0] != n]
                out.append((n, ann, dflt, c))
        return out

    def method_names(self, cname):
        names = set()
        for c in self.mro(cname):
            ci = self.classes.get(c)
            if ci is not None:
                names.update(ci.methods)
        return names

    def loc(self, modname, node):
        path, _ = self.sources[modname]
        return f"{path}:{getattr(node, 'lineno', 0)}"
