"""Symbolic values, types and the heap encoding (DESIGN.md 2.3).

Python value        SMT encoding
int                 Int (mathematical - exact for Python ints)
bool                Bool
str                 String (z3 sequence of unicode chars; A1: code points <= U+2FFFF)
None                the null reference / the 'none' flag of an optional
object reference    uninterpreted sort Ref; birth : Ref -> Int (allocation time), typeof : Ref -> Int
list                a Ref into the list heap: LLen : Ref->Int, LStr/LRef/LInt : Ref->(Int->T)
Optional[str]       pair (isnone : Bool, value : String)
Enum member         Int (its value)
"""
import z3

Ref = z3.DeclareSort("Ref")
NULL = z3.Const("null", Ref)
birth = z3.Function("birth", Ref, z3.IntSort())
typeof = z3.Function("typeof", Ref, z3.IntSort())
IntS, BoolS, StrS = z3.IntSort(), z3.BoolSort(), z3.StringSort()

# dynamic values (fields that really hold values of several Python types, e.g. VariableDocumentation.type)
Dyn = z3.Datatype("Dyn")
Dyn.declare("dnone")
Dyn.declare("dstr", ("sval", StrS))
Dyn.declare("denum", ("eval", IntS))
Dyn.declare("dint", ("ival", IntS))
Dyn = Dyn.create()


class VCError(Exception):
    """Construct outside the supported subset / contract error: the checker fails (exit 3), never a verdict."""


def parse_type(s):
    """'str' | 'int' | 'bool' | 'opt[str]' | 'list[str]' | 'list[ref:Foo]' | 'ref:Foo' | 'ref' | 'enum:E' | 'dyn'"""
    s = s.strip()
    if s in ("int", "bool", "str", "none", "dyn"):
        return s
    if s == "ref" or s == "any":
        return ("ref", None)
    if s.startswith("opt[") and s.endswith("]"):
        return ("opt", parse_type(s[4:-1]))
    if s.startswith("list[") and s.endswith("]"):
        return ("list", parse_type(s[5:-1]))
    if s.startswith("glist[") and s.endswith("]"):
        return ("list", parse_type(s[6:-1]), "g")      # ghost list: lives in its own heap arrays (GLen, GStr, ...)
    if s.startswith("ref:"):
        return ("ref", s[4:])
    if s.startswith("optref:"):
        return ("ref", s[7:], True)          # nullable reference (as a list element / field type)
    if s.startswith("enum:"):
        return ("enum", s[5:])
    raise VCError(f"bad type string {s!r}")


def sort_of(ty):
    if ty == "int":
        return IntS
    if ty == "bool":
        return BoolS
    if ty == "str":
        return StrS
    if ty == "dyn":
        return Dyn
    if isinstance(ty, tuple):
        if ty[0] in ("ref", "list"):
            return Ref
        if ty[0] == "enum":
            return IntS
        if ty[0] == "opt":
            return sort_of(ty[1])
    raise VCError(f"no sort for type {ty!r}")


def len_key(lty):
    """heap array holding the length of a list of (static) type lty"""
    return "GLen" if isinstance(lty, tuple) and len(lty) > 2 and lty[2] == "g" else "LLen"


def arr_key(lty):
    k = elem_array_key(lty[1])
    return "G" + k[1:] if isinstance(lty, tuple) and len(lty) > 2 and lty[2] == "g" else k


def elem_array_key(ty):
    if ty == "str":
        return "LStr"
    if ty in ("int",) or (isinstance(ty, tuple) and ty[0] == "enum"):
        return "LInt"
    if isinstance(ty, tuple) and ty[0] in ("ref", "list"):
        return "LRef"
    raise VCError(f"no list element array for {ty!r}")


class V:
    """A symbolic Python value."""
    __slots__ = ("ty", "t", "aux", "exact")

    def __init__(self, ty, t, aux=None, exact=False):
        self.ty = ty
        self.t = t
        self.aux = aux
        self.exact = exact

    def kind(self):
        return self.ty if isinstance(self.ty, str) else self.ty[0]

    def __repr__(self):
        return f"V({self.ty},{self.t})"


def mk_int(t):
    return V("int", t if z3.is_expr(t) else z3.IntVal(t))


def mk_bool(t):
    return V("bool", t if z3.is_expr(t) else z3.BoolVal(t))


def mk_str(t):
    return V("str", t if z3.is_expr(t) else z3.StringVal(t))


NONE = V("none", None)


def mk_ref(t, cls, exact=False):
    return V(("ref", cls), t, exact=exact)


def mk_list(t, elem):
    return V(("list", elem), t)


def mk_opt(isnone, inner_t, inner_ty):
    return V(("opt", inner_ty), inner_t, aux=isnone)


def mk_enum(t, ename):
    return V(("enum", ename), t if z3.is_expr(t) else z3.IntVal(t))


def fresh_of(ty, name, ctr):
    """A fresh symbolic value of type ty."""
    n = f"{name}!{ctr}"
    if ty == "int":
        return mk_int(z3.Int(n))
    if ty == "bool":
        return mk_bool(z3.Bool(n))
    if ty == "str":
        return mk_str(z3.String(n))
    if ty == "none":
        return NONE
    if ty == "dyn":
        return V("dyn", z3.Const(n, Dyn))
    if ty[0] == "ref":
        return V(ty, z3.Const(n, Ref))
    if ty[0] == "list":
        return mk_list(z3.Const(n, Ref), ty[1])
    if ty[0] == "enum":
        return mk_enum(z3.Int(n), ty[1])
    if ty[0] == "opt":
        return mk_opt(z3.Bool(n + "?none"), z3.Const(n, sort_of(ty[1])), ty[1])
    raise VCError(f"cannot make fresh value of type {ty!r}")


class Heap:
    """Functional heap: a dict of z3 arrays; updates return nothing but rebind the entry."""

    def __init__(self, arrays=None, now=None):
        self.arrays = dict(arrays) if arrays else {}
        self.now = now if now is not None else z3.Int("now@0")

    def copy(self):
        return Heap(self.arrays, self.now)

    def get(self, key, sort):
        a = self.arrays.get(key)
        if a is None:
            a = z3.Const(key + "@0", z3.ArraySort(Ref, sort))
            self.arrays[key] = a
        return a

    def set(self, key, arr):
        self.arrays[key] = arr
