"""Lemmas over spec functions: pure implications, optionally by natural-number induction on one parameter
(base and step are separate obligations; the induction hypothesis is an assumption of the step)."""
import itertools
import z3

from .engine import FunctionVerifier, Ctx, conj
from .sv import Heap, fresh_of, parse_type, VCError
from . import solve


class _DummyFunc:
    module = "cminx.rstwriter"
    cls = None
    key = "lemma"
    name = "lemma"
    node = None


def spec_evaluator(world, label):
    fv = FunctionVerifier.__new__(FunctionVerifier)
    fv.world = world
    fv.prog = world.prog
    fv.func = _DummyFunc()
    fv.recv_class = None
    fv.contract = None
    fv.opts = {}
    fv.obligations = []
    fv.covers = []
    fv._seen = set()
    fv.paths = 1
    fv.label = label
    fv.trace, fv.prefix, fv.pc = [], [], []
    fv.ctr = itertools.count()
    fv.heap = Heap()
    fv.env = {}
    fv.pre_env, fv.pre_heap = {}, fv.heap
    fv.feas_timeout = 2000
    fv.handlers = []
    fv._nonneg, fv._nonneg_keep = set(), []
    fv._fresh_ids, fv._entry_ids, fv._id_keep = set(), set(), []
    fv._owner_tag, fv._entry_term_cache, fv._binder_cache, fv._lkind_tag = {}, {}, {}, {}
    fv._revealed = {}
    fv._newer_havoc, fv._fresh_order = {}, {}
    fv._soft_ids, fv.soft_mode = set(), False
    fv._branch_ids, fv._proved_ids = set(), set()
    fv.proving = False
    fv._loop_entry = None
    fv._loop_it = None
    fv._marks = {}
    fv.replay_len = 0
    fv.stat = {"feas": 0, "feas_s": 0.0, "full": 0, "full_s": 0.0}
    fv.where = lambda node: ""
    return fv


def lemma_env(world, lm, fv, suffix=""):
    env = {}
    for pn, pty in lm.params:
        t = parse_type(pty)
        if isinstance(t, tuple) and t[0] == "list":
            n = z3.Int(f"L_{pn}_len{suffix}")
            arr = z3.Const(f"L_{pn}_arr{suffix}", z3.ArraySort(z3.IntSort(), __import__("pyvc.sv", fromlist=["sort_of"]).sort_of(t[1])))
            from .sv import V
            env[pn] = V(("listval", t[1]), (n, arr))
            fv.assume(n >= 0)
        else:
            env[pn] = fresh_of(t, "L_" + pn + suffix, 0)
    return env


def prove_lemmas(world, pid, timeout_ms):
    out = []
    todo = [lm for lm in world.lemmas.values() if pid in lm.props and not lm.trusted]
    obs = []
    for lm in todo:
        if lm.induction is None:
            fv = spec_evaluator(world, f"lemma:{lm.name}")
            fv.proving_nonneg = lm.name[:-7] if lm.name.endswith("_nonneg") else None
            env = lemma_env(world, lm, fv)
            ctx = Ctx(env, fv.heap, spec=True, fuel=2)
            for r in lm.requires:
                fv.assume(fv.eval_spec_bool(r, ctx))
            for i, e in enumerate(lm.ensures):
                fv.oblige(fv.eval_spec_bool(e, ctx), "lemma", f"{i}", lm.path)
            obs.extend(fv.obligations)
        else:
            iv = lm.induction
            # base
            fv = spec_evaluator(world, f"lemma:{lm.name}/base")
            fv.proving_nonneg = lm.name[:-7] if lm.name.endswith("_nonneg") else None
            env = lemma_env(world, lm, fv)
            fv.assume(env[iv].t == 0)
            ctx = Ctx(env, fv.heap, spec=True, fuel=2)
            for r in lm.requires:
                fv.assume(fv.eval_spec_bool(r, ctx))
            for i, e in enumerate(lm.ensures):
                fv.oblige(fv.eval_spec_bool(e, ctx), "lemma-base", f"{i}", lm.path)
            obs.extend(fv.obligations)
            # step
            fv = spec_evaluator(world, f"lemma:{lm.name}/step")
            fv.proving_nonneg = lm.name[:-7] if lm.name.endswith("_nonneg") else None
            env = lemma_env(world, lm, fv)
            fv.assume(env[iv].t > 0)
            ctx = Ctx(env, fv.heap, spec=True, fuel=2)
            for r in lm.requires:
                fv.assume(fv.eval_spec_bool(r, ctx))
            from .sv import mk_int
            env2 = dict(env)
            env2[iv] = mk_int(env[iv].t - 1)
            ctx2 = Ctx(env2, fv.heap, spec=True, fuel=2)
            hyp_pre = conj([fv.eval_spec_bool(r, ctx2) for r in lm.requires])
            hyp_post = conj([fv.eval_spec_bool(e, ctx2) for e in lm.ensures])
            fv.assume(z3.Implies(hyp_pre, hyp_post))
            for i, e in enumerate(lm.ensures):
                fv.oblige(fv.eval_spec_bool(e, ctx), "lemma-step", f"{i}", lm.path)
            obs.extend(fv.obligations)
    res = solve.discharge(obs, timeout_ms=timeout_ms)
    # vacuity guard: the hypotheses of a lemma must be satisfiable
    vac = solve.check_covers([(o.name + "#cover", o.pc) for o in obs if not o.trivial])
    for o in obs:
        r = res[o.name]
        if o.name + "#cover" in vac:
            r = ("unknown", r[1], r[2], None, "VACUOUS: hypotheses are contradictory")
        out.append((o.name, o.where, r))
    return out
