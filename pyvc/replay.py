"""Replay of a recorded violation on the real code: re-runs the recorded driver case with the run-time
contract wrappers installed and reports whether the same clause fails again."""
import importlib
import json
import os
import sys

HERE = os.path.dirname(os.path.dirname(os.path.abspath(__file__)))


def replay(pid, path):
    if not os.path.isabs(path):
        path = os.path.join(HERE, path)
    with open(path) as f:
        rec = json.load(f)
    if rec.get("kind") != "runtime-contract":
        print(f"replay: {path} records a refuted obligation without a concrete input:")
        print(json.dumps({k: rec.get(k) for k in ("obligation", "where", "backend", "solver_verdict")}, indent=1))
        return 1
    from . import runtime
    mods = ["contracts." + p[:-3] for p in sorted(os.listdir(os.path.join(HERE, "contracts")))
            if p.endswith(".py") and not p.startswith("_")]
    if HERE not in sys.path:
        sys.path.insert(0, HERE)
    runtime.install(mods)
    case = rec.get("case") or {}
    drv = case.get("driver")
    if drv is None:
        print("replay: no driver case recorded")
        return 1
    mod = importlib.import_module("bounded.drv_" + drv if not drv.startswith("drv_") else "bounded." + drv)
    mod.replay_case(case, runtime.STATS)
    hits = [v for v in runtime.STATS.violations
            if v.get("function") == rec.get("function") and v.get("clause") == rec.get("clause")]
    if hits:
        v = hits[0]
        print(f"REPLAYED on the real code: {v['function']} clause {v['clause']} fails")
        print("  failed conjunct:", v.get("failed_conjunct"))
        print("  inputs:", json.dumps(v.get("inputs"), default=str)[:600])
        print("  observed:", str(v.get("observed"))[:400])
        print(f"VIOLATION property={pid} replay={path}")
        return 1
    print("replay: the recorded case no longer violates the contract")
    return 0
