"""Run-time contract checking of the *real* functions (bounded stand-in, witness/non-vacuity check, replay).

The sidecar contract files are imported natively; every function under contract is wrapped so that on each
real call the precondition, the postcondition clauses and the `returns` expression are evaluated in CPython on
the real arguments, the real result and a deep-copied snapshot of the pre-state.  Nothing under /repo is edited:
wrappers are installed by attribute assignment in the running interpreter."""
import copy
import importlib
import inspect
import os
import sys
import traceback

from . import dsl

sys.setrecursionlimit(20000)


class _Old:
    def __getattr__(self, name):
        env = dsl._STATE.get("old_env")
        if env is None or name not in env:
            raise AttributeError(name)
        return env[name]


dsl.old = _Old()


class Stats:
    def __init__(self):
        self.calls = {}
        self.pre_ok = {}
        self.post_checked = {}
        self.violations = []
        self.errors = []
        self.current_case = None

    def bump(self, d, k):
        d[k] = d.get(k, 0) + 1


STATS = Stats()
_IN_CHECK = [0]
_ORIGINALS = {}


def _atomic_deepcopy(cls):
    def dc(self, memo):
        return self
    try:
        cls.__deepcopy__ = dc
    except Exception:
        pass


def prepare_snapshots():
    """ANTLR contexts / tokens / parsers are immutable inputs for our purposes: snapshot them by reference."""
    import antlr4
    from antlr4 import ParserRuleContext, Token, Parser, Lexer, InputStream
    from antlr4.tree.Tree import TerminalNodeImpl
    import logging
    for c in (ParserRuleContext, Token, Parser, Lexer, InputStream, TerminalNodeImpl, logging.Logger):
        _atomic_deepcopy(c)


def _call_clause(fn, env):
    names = list(inspect.signature(fn).parameters)
    args = []
    for n in names:
        if n not in env:
            raise KeyError(f"clause parameter {n} not available")
        args.append(env[n])
    return fn(*args)


def _clauses(ccls, prefix):
    out = []
    for name, fn in ccls.__dict__.items():
        if callable(fn) and name.startswith(prefix) and not name.startswith("__") and not name.startswith("ensures_ghost") and not name.startswith("ensures_assumed"):
            out.append((name, fn))
    return out


def _short(x, depth=0):
    try:
        r = repr(x)
    except Exception:
        r = f"<{type(x).__name__}>"
    return r if len(r) < 300 else r[:300] + "..."


def make_wrapper(key, ccls, orig, is_init=False):
    sig = inspect.signature(orig)
    req = _clauses(ccls, "requires")
    ens = _clauses(ccls, "ensures")
    ret = ccls.__dict__.get("returns")
    raises = ccls.__dict__.get("raises", {})

    def wrapper(*args, **kwargs):
        if _IN_CHECK[0]:
            return orig(*args, **kwargs)
        STATS.bump(STATS.calls, key)
        try:
            ba = sig.bind(*args, **kwargs)
            ba.apply_defaults()
            env = dict(ba.arguments)
        except TypeError:
            return orig(*args, **kwargs)
        # precondition
        pre_ok = True
        _IN_CHECK[0] += 1
        try:
            for name, fn in req:
                try:
                    if not _call_clause(fn, env):
                        pre_ok = False
                except Exception:
                    pre_ok = False
        finally:
            _IN_CHECK[0] -= 1
        if not pre_ok:
            return orig(*args, **kwargs)
        STATS.bump(STATS.pre_ok, key)
        # snapshot
        memo = {}
        try:
            old_env = copy.deepcopy(env, memo)
        except Exception:
            old_env, memo = dict(env), None
        old_env["WORLD"] = dsl.WORLD.snapshot()
        try:
            result = orig(*args, **kwargs)
        except BaseException as ex:
            tname = type(ex).__name__
            allowed = False
            _IN_CHECK[0] += 1
            saved = (dsl._STATE.get("old_env"), dsl._STATE.get("memo"))
            dsl._STATE["old_env"], dsl._STATE["memo"] = old_env, memo
            try:
                for k, fn in (raises or {}).items():
                    if any(c.__name__ == k for c in type(ex).__mro__):
                        try:
                            allowed = bool(_call_clause(fn, env))
                        except Exception:
                            allowed = True
            finally:
                dsl._STATE["old_env"], dsl._STATE["memo"] = saved
                _IN_CHECK[0] -= 1
            if not allowed and not isinstance(ex, (KeyboardInterrupt,)) and getattr(ex, "_pyvc_seen", None) is None:
                # an exception escaping a function under contract whose contract does not allow it
                try:
                    ex._pyvc_seen = True
                except Exception:
                    pass
                if not ccls.__dict__.get("propagates", False):
                    STATS.violations.append({"function": key, "clause": f"noexc.{tname}", "case": STATS.current_case,
                                             "inputs": {k: _short(v) for k, v in old_env.items()},
                                             "observed": f"raised {tname}: {ex}"})
            raise
        env2 = dict(env)
        env2["result"] = result
        _IN_CHECK[0] += 1
        saved = (dsl._STATE.get("old_env"), dsl._STATE.get("memo"), dsl._STATE.get("pre_ids"))
        dsl._STATE["old_env"], dsl._STATE["memo"] = old_env, memo
        dsl._STATE["pre_ids"] = set(memo.keys()) if memo is not None else None
        try:
            STATS.bump(STATS.post_checked, key)
            for name, fn in ens:
                try:
                    ok = _call_clause(fn, env2)
                except Exception as ex:
                    STATS.errors.append({"function": key, "clause": name, "error": repr(ex),
                                         "trace": traceback.format_exc(limit=4)})
                    continue
                if not ok:
                    detail = _explain(fn, env2)
                    STATS.violations.append({"function": key, "clause": name, "case": STATS.current_case,
                                             "inputs": {k: _short(v) for k, v in old_env.items()},
                                             "observed": _short(result), "failed_conjunct": detail})
            if ret is not None:
                try:
                    exp = _call_clause(ret, env)
                    if exp != result:
                        STATS.violations.append({"function": key, "clause": "returns", "case": STATS.current_case,
                                                 "inputs": {k: _short(v) for k, v in old_env.items()},
                                                 "observed": _short(result), "expected": _short(exp)})
                except Exception as ex:
                    STATS.errors.append({"function": key, "clause": "returns", "error": repr(ex)})
        finally:
            dsl._STATE["old_env"], dsl._STATE["memo"], dsl._STATE["pre_ids"] = saved
            _IN_CHECK[0] -= 1
        return result
    wrapper.__name__ = getattr(orig, "__name__", "wrapped")
    wrapper.__wrapped__ = orig
    wrapper._pyvc_key = key
    return wrapper


def _explain(fn, env):
    """Which top-level conjunct of the clause is false (best effort, by re-evaluating the source conjuncts)."""
    import ast
    import textwrap
    try:
        src = textwrap.dedent(inspect.getsource(fn))
        tree = ast.parse(src)
        ret = [n for n in ast.walk(tree) if isinstance(n, ast.Return)][0].value
        conj = ret.values if isinstance(ret, ast.BoolOp) and isinstance(ret.op, ast.And) else [ret]
        g = dict(fn.__globals__)
        names = list(inspect.signature(fn).parameters)
        loc = {n: env[n] for n in names}
        for c in conj:
            code = compile(ast.Expression(body=c), "<clause>", "eval")
            try:
                if not eval(code, g, loc):
                    return ast.unparse(c)
            except Exception as ex:
                return ast.unparse(c) + f"   [raised {ex!r}]"
    except Exception:
        return None
    return None


def locate(key):
    """-> (owner object, attribute name, original callable, kind)"""
    modname, qual = key.split(":")
    setter = qual.endswith(".setter")
    if setter:
        qual = qual[:-7]
    mod = importlib.import_module(modname)
    parts = qual.split(".")
    owner = mod
    for p in parts[:-1]:
        owner = getattr(owner, p)
    name = parts[-1]
    raw = owner.__dict__[name] if hasattr(owner, "__dict__") and name in owner.__dict__ else getattr(owner, name)
    return mod, owner, name, raw, setter


def install_world_recorders():
    """os.makedirs / open(...,'w').write / print as used by cminx record into dsl.WORLD (and still happen)."""
    import builtins
    import os as _os
    import cminx
    import cminx.rstwriter as rw
    if getattr(_os.makedirs, "_pyvc", False):
        return
    real_makedirs = _os.makedirs

    def makedirs(p, *a, **k):
        dsl.WORLD.made.append(p)
        return real_makedirs(p, *a, **k)
    makedirs._pyvc = True
    _os.makedirs = makedirs

    class _F:
        def __init__(self, f, path):
            self._f, self._path = f, path

        def write(self, text):
            dsl.WORLD.wpaths.append(self._path)
            dsl.WORLD.wdata.append(text)
            return self._f.write(text)

        def __enter__(self):
            self._f.__enter__()
            return self

        def __exit__(self, *a):
            return self._f.__exit__(*a)

        def __getattr__(self, n):
            return getattr(self._f, n)

    def rec_open(path, mode="r", *a, **k):
        f = builtins.open(path, mode, *a, **k)
        return _F(f, path) if "w" in mode else f
    rw.open = rec_open

    def rec_print(*args, **k):
        dsl.WORLD.out.append(" ".join(str(x) for x in args) + "\n")
        return builtins.print(*args, **k)
    cminx.print = rec_print


def install(contract_modules, only=None):
    """Import the contract modules and wrap every function that has a (non-external) contract."""
    here = os.path.dirname(os.path.dirname(os.path.abspath(__file__)))
    if here not in sys.path:
        sys.path.insert(0, here)
    prepare_snapshots()
    install_world_recorders()
    for m in contract_modules:
        importlib.import_module(m)
    installed = []
    for key, ccls in dsl.REGISTRY.items():
        if key.startswith("ext:") or key.startswith("virtual:") or ccls.__dict__.get("trusted", False):
            continue
        if only is not None and key not in only:
            continue
        if ccls.__dict__.get("no_runtime", False):
            continue
        try:
            mod, owner, name, raw, setter = locate(key)
        except Exception as ex:
            STATS.errors.append({"function": key, "error": f"cannot locate: {ex!r}"})
            continue
        if key in _ORIGINALS:
            continue
        if isinstance(raw, property):
            if setter:
                w = make_wrapper(key, ccls, raw.fset)
                newp = property(raw.fget, w, raw.fdel, raw.__doc__)
            else:
                w = make_wrapper(key, ccls, raw.fget)
                newp = property(w, raw.fset, raw.fdel, raw.__doc__)
            _ORIGINALS[key] = (owner, name, raw)
            setattr(owner, name, newp)
        elif isinstance(raw, staticmethod):
            w = make_wrapper(key, ccls, raw.__func__)
            _ORIGINALS[key] = (owner, name, raw)
            setattr(owner, name, staticmethod(w))
        else:
            w = make_wrapper(key, ccls, raw)
            _ORIGINALS[key] = (owner, name, raw)
            setattr(owner, name, w)
            if inspect.ismodule(owner):
                # `from x import f` copies: patch every cminx module that holds the same function object
                for mname, m in list(sys.modules.items()):
                    if mname.startswith("cminx") and m is not None and getattr(m, name, None) is raw:
                        setattr(m, name, w)
        installed.append(key)
    return installed


def uninstall():
    for key, (owner, name, raw) in list(_ORIGINALS.items()):
        cur = getattr(owner, name, None)
        setattr(owner, name, raw)
        if inspect.ismodule(owner):
            for mname, m in list(sys.modules.items()):
                if mname.startswith("cminx") and m is not None and getattr(getattr(m, name, None), "_pyvc_key", None) == key:
                    setattr(m, name, raw)
    _ORIGINALS.clear()
