"""Native (CPython) meaning of the contract vocabulary.  The verifier never imports contract files,
it parses them; runtime.py imports them and evaluates the very same clauses on real executions."""

REGISTRY = {}      # key -> contract class
SPECS = {}
LEMMAS = {}
_STATE = {"fresh_ok": None, "memo": None}


def contract(key):
    def deco(cls):
        REGISTRY[key] = cls
        cls._key = key
        return cls
    return deco


def spec(fn=None, **kw):
    def deco(f):
        SPECS[f.__name__] = f
        return f
    if fn is not None:
        return deco(fn)
    return deco


def lemma(fn):
    LEMMAS[fn.__name__] = fn

    def use(*a, **k):
        return True
    use.__name__ = fn.__name__
    return use


class Loop:
    def __init__(self, inv=None, modifies=None, elem=None, step=None, lean=False):
        self.inv = inv if isinstance(inv, (list, tuple)) else [inv]
        self.step = step
        self.modifies = modifies
        self.elem = elem


def requires(x):
    return x


def ensures(x):
    return x


def induction(x):
    return x


def trusted():
    return True


def props(*a):
    return a


def implies(a, b):
    return (not a) or bool(b)


def iff(a, b):
    return bool(a) == bool(b)


def forall(lo, hi, p, pattern=None):
    return all(p(i) for i in range(lo, hi))


def exists(lo, hi, p):
    return any(p(i) for i in range(lo, hi))


def typeof(x, cname):
    return type(x).__name__ == cname


def fresh(x):
    ids = _STATE.get("pre_ids")
    if ids is None:
        return True
    return id(x) not in ids


def allocated(x):
    return x is not None


def same(a, b):
    """identity of a current object with an object of the old snapshot"""
    if a is b:
        return True
    if isinstance(a, tuple) and isinstance(b, tuple):
        return len(a) == len(b) and all(same(x, y) or x == y for x, y in zip(a, b))
    memo = _STATE.get("memo")
    if memo is not None:
        return memo.get(id(a)) is b or memo.get(id(b)) is a
    return False


def hint(x):
    return True


def forall_str(p):
    return True


def forall_ref(p, cls=None):
    return True


def items(x):
    return x


def fields(x):
    return x


def cast(x, cname):
    return x


def is_enum_value(x):
    import enum
    return isinstance(x, enum.Enum)


def class_attr(key):
    import importlib
    cname, attr = key.split(".")
    import cminx.rstwriter as m
    return getattr(getattr(m, cname), attr)


def strip_def(x):
    return True


def only_chars(s, chars):
    return all(c in chars for c in s)


def cur(x):
    """the current object a snapshot object stands for"""
    memo = _STATE.get("memo")
    if memo is not None:
        rev = _STATE.get("rev")
        if rev is None or rev[0] is not memo:
            import ctypes
            d = {}
            for k, v in memo.items():
                if isinstance(k, int):
                    d[id(v)] = k
            rev = (memo, d)
            _STATE["rev"] = rev
        oid = rev[1].get(id(x))
        if oid is not None:
            keep = memo.get(id(memo))
            if keep is not None:
                for o in keep:
                    if id(o) == oid:
                        return o
    return x


def is_str_value(x):
    return isinstance(x, str)


def newer(a, b):
    return True


class _World:
    """native recording of the observable effects (see contracts/c_external.py: ghost object WORLD)"""
    def __init__(self):
        self.made, self.wpaths, self.wdata, self.out = [], [], [], []

    def snapshot(self):
        w = _World()
        w.made, w.wpaths, w.wdata, w.out = list(self.made), list(self.wpaths), list(self.wdata), list(self.out)
        return w


WORLD = _World()


def distinct_strs(l):
    """the entries of a list of str are pairwise different"""
    l = list(l)
    return len(set(l)) == len(l)
