"""Discharging obligations: every obligation is one SMT query (path condition and negated goal).
Proof mode: z3 (python API) in worker processes; `unknown` is retried with another tactic/seed,
then on cvc5 and on /usr/bin/z3 where the query is within their input language.
Verdicts: 'unsat' = discharged, 'sat' = refuted (model kept), 'unknown' = undecided."""
import multiprocessing as mp
import os
import subprocess
import tempfile
import time

import z3


def _hard_worker(func, conn):
    try:
        while True:
            item = conn.recv()
            if item is None:
                return
            idx, task = item
            try:
                res = func(task)
            except BaseException as ex:       # a solver crash is an answer ("unknown"), not a reason to stop
                res = ("__error__", repr(ex))
            conn.send((idx, res))
    except (EOFError, KeyboardInterrupt):
        return


def hard_map(func, tasks, procs, hard_s, on_timeout):
    """map with a HARD wall-clock limit per task: z3 occasionally ignores its own timeout; a worker that overruns is
    killed and replaced, its task gets on_timeout(task).  Yields (task index, result) as results arrive."""
    from multiprocessing.connection import wait
    ctx = mp.get_context("fork")
    todo = list(enumerate(tasks))[::-1]
    workers = []

    def spawn():
        parent, child = ctx.Pipe()
        p = ctx.Process(target=_hard_worker, args=(func, child), daemon=True)
        p.start()
        child.close()
        return {"p": p, "c": parent, "idx": None, "t": 0.0}
    n = max(1, min(procs, len(tasks)))
    workers = [spawn() for _ in range(n)]
    done = 0
    try:
        while done < len(tasks):
            for w in workers:
                if w["idx"] is None and todo:
                    idx, task = todo.pop()
                    w["idx"], w["t"] = idx, time.time()
                    w["c"].send((idx, task))
            busy = [w for w in workers if w["idx"] is not None]
            ready = wait([w["c"] for w in busy], timeout=0.5) if busy else []
            for w in busy:
                if w["c"] in ready:
                    try:
                        idx, res = w["c"].recv()
                    except (EOFError, OSError):
                        idx, res = w["idx"], ("__error__", "worker died")
                        w["p"].terminate()
                        workers[workers.index(w)] = spawn()
                    if isinstance(res, tuple) and res and res[0] == "__error__":
                        res = on_timeout(tasks[idx], res[1])
                    w["idx"] = None
                    done += 1
                    yield idx, res
                elif time.time() - w["t"] > hard_s:
                    idx = w["idx"]
                    w["p"].terminate()
                    w["p"].join(timeout=2)
                    if w["p"].is_alive():
                        w["p"].kill()
                    workers[workers.index(w)] = spawn()
                    done += 1
                    yield idx, on_timeout(tasks[idx], f"hard limit of {hard_s:.0f}s exceeded (solver ignored its timeout)")
    finally:
        for w in workers:
            try:
                w["c"].send(None)
            except Exception:
                pass
        for w in workers:
            w["p"].join(timeout=1)
            if w["p"].is_alive():
                w["p"].terminate()


def _has_quantifier(e):
    todo, seen = [e], set()
    while todo:
        x = todo.pop()
        if x.get_id() in seen:
            continue
        seen.add(x.get_id())
        if z3.is_quantifier(x):
            return True
        todo.extend(x.children())
    return False


def _ground_first(smt2, timeout_ms):
    """Tier 0: the query restricted to its quantifier-free hypotheses (a subset of the hypotheses: `unsat` here is
    `unsat` of the full query).  Many obligations (frames, preconditions, counting steps) need no quantified fact,
    and the quantified ones only slow the solver down."""
    try:
        s = z3.Solver()
        s.from_string(smt2)
        a = s.assertions()
        g = [x for x in a if not _has_quantifier(x)]
        if len(g) == len(a):
            return False
        s0 = z3.Solver()
        s0.set("timeout", min(timeout_ms, 3000))
        for x in g:
            s0.add(x)
        return s0.check() == z3.unsat
    except Exception:
        return False


_STOP_SYMS = {"birth", "typeof", "lkind", "lowner"}


def _symbols(e):
    out, todo, seen = set(), [e], set()
    while todo:
        x = todo.pop()
        if x.get_id() in seen:
            continue
        seen.add(x.get_id())
        if z3.is_quantifier(x):
            todo.append(x.body())
            continue
        if z3.is_app(x):
            if x.decl().kind() == z3.Z3_OP_UNINTERPRETED:
                out.add(x.decl().name())
            todo.extend(x.children())
    return out


def _relevant_first(smt2, timeout_ms):
    """Tier 1: all quantifier-free hypotheses plus the quantified hypotheses that share a (not ubiquitous) symbol
    with the goal.  Again a subset of the hypotheses, so `unsat` carries over to the full query."""
    try:
        s = z3.Solver()
        s.from_string(smt2)
        a = list(s.assertions())
        if len(a) < 2:
            return False
        goal, hyps = a[-1], a[:-1]
        info = [(h, _has_quantifier(h)) for h in hyps]
        qh = [(h, _symbols(h)) for h, q in info if q]
        if not qh:
            return False
        freq = {}
        for h in hyps:
            for sy in _symbols(h):
                freq[sy] = freq.get(sy, 0) + 1
        lim = max(3, len(hyps) // 5)
        rel = {x for x in _symbols(goal) if x not in _STOP_SYMS and freq.get(x, 0) <= lim}
        chosen = [h for h, sy in qh if sy & rel]
        if len(chosen) == len(qh):
            return False
        s1 = z3.Solver()
        s1.set("timeout", min(timeout_ms, 4000))
        for h, q in info:
            if not q:
                s1.add(h)
        for h in chosen:
            s1.add(h)
        s1.add(goal)
        return s1.check() == z3.unsat
    except Exception:
        return False


def _solve_one(task):
    name, smt2, timeout_ms, want_model = task[:4]
    quick = len(task) > 4 and task[4]
    t0 = time.time()
    backend = "z3-5.1(py)"
    if _ground_first(smt2, timeout_ms):
        return (name, "unsat", "z3-5.1(py,ground hypotheses)", int((time.time() - t0) * 1000), None, "")
    if _relevant_first(smt2, timeout_ms):
        return (name, "unsat", "z3-5.1(py,relevant hypotheses)", int((time.time() - t0) * 1000), None, "")
    try:
        # Tier 2: the full query with cheap instances only (eager threshold 3): avoids flooding by the quantified
        # facts that have nothing to do with the goal
        se = z3.Solver()
        se.set("timeout", min(timeout_ms, 4000))
        se.set("qi.eager_threshold", 3.0)
        se.from_string(smt2)
        if se.check() == z3.unsat:
            return (name, "unsat", "z3-5.1(py,qi.eager_threshold=3)", int((time.time() - t0) * 1000), None, "")
    except Exception:
        pass
    if quick:
        try:
            s = z3.Solver()
            s.set("timeout", timeout_ms)
            s.from_string(smt2)
            r = s.check()
            return (name, "unsat" if r == z3.unsat else "unknown", backend, int((time.time() - t0) * 1000), None, "")
        except Exception as ex:
            return (name, "unknown", backend, int((time.time() - t0) * 1000), None, repr(ex))
    try:
        s = z3.Solver()
        s.set("timeout", timeout_ms)
        s.from_string(smt2)
        r = s.check()
        res = str(r)
        model = None
        reason = ""
        if r == z3.sat:
            # a `sat` on a query with quantifiers/lambdas is only believed when it is reproducible: z3 has been
            # seen to answer sat and, on the identical text, unsat.  Any unsat wins (unsat answers are what the
            # trusted base T-SMT relies on); sat needs two further agreeing runs.
            if want_model:
                try:
                    model = s.model().sexpr()
                except Exception:
                    model = None
            votes = []
            for seed in (7, 23):
                sx = z3.Solver()
                sx.set("timeout", timeout_ms)
                sx.set("random_seed", seed)
                sx.from_string(smt2)
                votes.append(sx.check())
            if any(v == z3.unsat for v in votes):
                return (name, "unsat", "z3-5.1(py,reseeded)", int((time.time() - t0) * 1000), None,
                        "first run answered sat, a reseeded run answered unsat")
            if not all(v == z3.sat for v in votes):
                res = "unknown"
                reason = "sat not reproducible"
                model = None
                r = z3.unknown
        if r == z3.unknown:
            reason = s.reason_unknown()
            # z3 gives up early on some queries with lambda arrays ("incomplete (theory array)") depending on the
            # random seed only: retry reseeded before changing configuration (any unsat is an answer)
            if (time.time() - t0) * 1000 < timeout_ms * 0.8:
                for seed in (3, 11, 42, 5):
                    sx = z3.Solver()
                    sx.set("timeout", timeout_ms)
                    sx.set("random_seed", seed)
                    sx.from_string(smt2)
                    if sx.check() == z3.unsat:
                        return (name, "unsat", f"z3-5.1(py,seed={seed})", int((time.time() - t0) * 1000), None, "")
            # second attempt: different configuration
            s2 = z3.Solver()
            s2.set("timeout", timeout_ms)
            s2.set("smt.mbqi", False)
            s2.from_string(smt2)
            r2 = s2.check()
            if r2 != z3.unknown:
                res = str(r2)
                backend = "z3-5.1(py,mbqi=off)"
                if r2 == z3.sat:
                    # without MBQI a 'sat' on a quantified problem is not trustworthy: keep it as unknown
                    if "forall" in smt2 or "exists" in smt2:
                        res = "unknown"
                        reason = "sat without mbqi on quantified query"
                    elif want_model:
                        model = s2.model().sexpr()
        return (name, res, backend, int((time.time() - t0) * 1000), model, reason)
    except Exception as ex:  # solver crash = undecided
        return (name, "unknown", backend, int((time.time() - t0) * 1000), None, f"exception {ex!r}")


def _cli(cmd, smt2, timeout_s):
    with tempfile.NamedTemporaryFile("w", suffix=".smt2", delete=False) as f:
        f.write(smt2)
        path = f.name
    try:
        p = subprocess.run(cmd + [path], capture_output=True, text=True, timeout=timeout_s)
        out = p.stdout.strip().splitlines()
        return out[0] if out else "unknown"
    except subprocess.TimeoutExpired:
        return "unknown"
    finally:
        os.unlink(path)


def _retry_other_backends(task):
    name, smt2, timeout_ms = task[0], task[1], task[2]
    t0 = time.time()
    timeout_s = max(5, timeout_ms // 1000)
    if "lambda" not in smt2:
        r = _cli(["/usr/bin/cvc5", "--strings-exp", f"--tlimit={timeout_ms}"], "(set-logic ALL)\n" + smt2, timeout_s + 5)
        if r in ("sat", "unsat"):
            return (name, r, "cvc5-1.0.3", int((time.time() - t0) * 1000), None, "")
    r = _cli(["/usr/bin/z3", f"-T:{timeout_s}"], smt2, timeout_s + 5)
    if r in ("sat", "unsat"):
        return (name, r, "z3-4.8.12", int((time.time() - t0) * 1000), None, "")
    return (name, "unknown", "all", int((time.time() - t0) * 1000), None, "all back ends unknown")


def discharge(obligations, timeout_ms=60000, procs=None, want_model=True):
    """-> {name: (verdict, backend, ms, model, reason)}.  Clauses with parts: the whole clause first (short budget);
    if that query is not `unsat`, every part is discharged on its own and the clause takes the worst part verdict."""
    with_parts = [o for o in obligations if getattr(o, "parts", None)]
    if not with_parts:
        return _discharge_flat(obligations, timeout_ms, procs, want_model)
    first = _discharge_flat(obligations, min(timeout_ms, 3000), procs, want_model=False, quick=True)
    redo = [o for o in obligations if first[o.name][0] != "unsat"]
    parts = []
    simple = []
    for o in redo:
        if getattr(o, "parts", None):
            parts.extend(o.parts)
        else:
            simple.append(o)
    second = _discharge_flat(parts + simple, timeout_ms, procs, want_model) if (parts or simple) else {}
    out = dict(first)
    for o in redo:
        if getattr(o, "parts", None):
            rs = [second[p.name] for p in o.parts]
            ms = first[o.name][2] + sum(r[2] for r in rs)
            if all(r[0] == "unsat" for r in rs):
                out[o.name] = ("unsat", "parts:" + rs[0][1], ms, None, f"{len(rs)} parts")
            else:
                bad = [(p.name, r) for p, r in zip(o.parts, rs) if r[0] != "unsat"]
                worst = "sat" if any(r[0] == "sat" for _n, r in bad) else "unknown"
                out[o.name] = (worst, bad[0][1][1], ms, bad[0][1][3], "failed parts: " + ", ".join(n.split("#")[-1] for n, _r in bad[:6]))
        else:
            out[o.name] = second[o.name]
    return out


def _discharge_flat(obligations, timeout_ms=60000, procs=None, want_model=True, quick=False):
    """-> {name: (verdict, backend, ms, model, reason)}"""
    procs = procs or min(16, os.cpu_count() or 4)
    tasks = [(o.name, o.smt2(), timeout_ms, want_model, quick) for o in obligations if not getattr(o, "trivial", False)]
    results = {o.name: ("unsat", "z3-simplify", 0, None, "") for o in obligations if getattr(o, "trivial", False)}
    if not tasks:
        return results
    # every tier/retry inside _solve_one has its own solver timeout; the hard limit is their sum plus slack
    hard_s = (timeout_ms / 1000.0) * (2 if quick else 9) + 30

    def gave_up(task, why):
        return (task[0], "unknown", "z3-5.1(py)", int(hard_s * 1000), None, why)
    for _i, r in hard_map(_solve_one, tasks, procs, hard_s, gave_up):
        results[r[0]] = r[1:]
    retry = [t for t in tasks if results[t[0]][0] == "unknown"] if not quick else []
    if retry:
        def gave_up2(task, why):
            return (task[0], "unknown", "all", 0, None, why)
        for _i, r in hard_map(_retry_other_backends, retry, procs, 2 * (timeout_ms / 1000.0) + 30, gave_up2):
            if r[1] != "unknown":
                old = results[r[0]]
                results[r[0]] = (r[1], r[2], old[2] + r[3], r[4], r[5])
    return results


def _cover_one(task):
    """-> 'ok' | 'infeasible' (branch conditions/precondition alone are contradictory: a path the weakened
    feasibility check explored needlessly) | 'vacuous' (only assumed contract clauses make it contradictory)"""
    name, smt2_full, smt2_hard, smt2_nobranch = task
    try:
        s = z3.Solver()
        s.set("timeout", 5000)
        s.from_string(smt2_full)
        if s.check() != z3.unsat:
            return (name, "ok")
        if smt2_hard is None:
            return (name, "vacuous")
        s2 = z3.Solver()
        s2.set("timeout", 10000)
        s2.from_string(smt2_hard)
        if s2.check() == z3.unsat:
            return (name, "infeasible")
        if smt2_nobranch is not None:
            # contract clauses contradict only this particular combination of branch decisions: the path is
            # excluded by (proved or assumed) contract facts - pruning, not vacuity
            s3 = z3.Solver()
            s3.set("timeout", 10000)
            s3.from_string(smt2_nobranch)
            if s3.check() != z3.unsat:
                return (name, "pruned")
        return (name, "vacuous")
    except Exception as ex:
        return (name, "ok")


def cover_tasks(covers):
    tasks = []
    for cv in covers:
        name, pc = cv[0], cv[1]
        hard = cv[2] if len(cv) > 2 else None
        nobranch = cv[3] if len(cv) > 3 else None
        s = z3.Solver()
        for c in pc:
            s.add(c)
        h = nb = None
        if hard is not None:
            s2 = z3.Solver()
            for c in hard:
                s2.add(c)
            h = s2.to_smt2()
        if nobranch is not None:
            s3 = z3.Solver()
            for c in nobranch:
                s3.add(c)
            nb = s3.to_smt2()
        tasks.append((name, s.to_smt2(), h, nb))
    return tasks


def run_cover_tasks(tasks, procs=None):
    """-> names of vacuous paths (hard limit per cover: a cover the solver cannot decide is not vacuous)"""
    procs = procs or min(16, os.cpu_count() or 4)
    bad = []
    if not tasks:
        return bad
    for _i, (name, r) in hard_map(_cover_one, tasks, procs, 60, lambda task, why: (task[0], "ok")):
        if r == "vacuous":
            bad.append(name)
    return bad


def check_covers(covers, procs=None):
    """Vacuity guard -> names of paths whose path condition is contradictory because of assumed contract clauses
    (callee postconditions, invariants, lemma conclusions): everything proved on such a path is void."""
    return run_cover_tasks(cover_tasks(covers), procs)
