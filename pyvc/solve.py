"""Discharging obligations: every obligation is one SMT query (path condition and negated goal).
Proof mode: z3 (python API) in worker processes; `unknown` is retried with another tactic/seed,
then on cvc5 and on /usr/bin/z3 where the query is within their input language.
Verdicts: 'unsat' = discharged, 'sat' = refuted (model kept), 'unknown' = undecided."""
import multiprocessing as mp
import os
import subprocess
import tempfile
import time

import z3


def _solve_one(task):
    name, smt2, timeout_ms, want_model = task[:4]
    quick = len(task) > 4 and task[4]
    t0 = time.time()
    backend = "z3-5.1(py)"
    if quick:
        try:
            s = z3.Solver()
            s.set("timeout", timeout_ms)
            s.from_string(smt2)
            r = s.check()
            return (name, "unsat" if r == z3.unsat else "unknown", backend, int((time.time() - t0) * 1000), None, "")
        except Exception as ex:
            return (name, "unknown", backend, int((time.time() - t0) * 1000), None, repr(ex))
    try:
        s = z3.Solver()
        s.set("timeout", timeout_ms)
        s.from_string(smt2)
        r = s.check()
        res = str(r)
        model = None
        reason = ""
        if r == z3.sat:
            # a `sat` on a query with quantifiers/lambdas is only believed when it is reproducible: z3 has been
            # seen to answer sat and, on the identical text, unsat.  Any unsat wins (unsat answers are what the
            # trusted base T-SMT relies on); sat needs two further agreeing runs.
            if want_model:
                try:
                    model = s.model().sexpr()
                except Exception:
                    model = None
            votes = []
            for seed in (7, 23):
                sx = z3.Solver()
                sx.set("timeout", timeout_ms)
                sx.set("random_seed", seed)
                sx.from_string(smt2)
                votes.append(sx.check())
            if any(v == z3.unsat for v in votes):
                return (name, "unsat", "z3-5.1(py,reseeded)", int((time.time() - t0) * 1000), None,
                        "first run answered sat, a reseeded run answered unsat")
            if not all(v == z3.sat for v in votes):
                res = "unknown"
                reason = "sat not reproducible"
                model = None
                r = z3.unknown
        if r == z3.unknown:
            reason = s.reason_unknown()
            # z3 gives up early on some queries with lambda arrays ("incomplete (theory array)") depending on the
            # random seed only: retry reseeded before changing configuration (any unsat is an answer)
            if (time.time() - t0) * 1000 < timeout_ms * 0.8:
                for seed in (3, 11, 42, 5):
                    sx = z3.Solver()
                    sx.set("timeout", timeout_ms)
                    sx.set("random_seed", seed)
                    sx.from_string(smt2)
                    if sx.check() == z3.unsat:
                        return (name, "unsat", f"z3-5.1(py,seed={seed})", int((time.time() - t0) * 1000), None, "")
            # second attempt: different configuration
            s2 = z3.Solver()
            s2.set("timeout", timeout_ms)
            s2.set("smt.mbqi", False)
            s2.from_string(smt2)
            r2 = s2.check()
            if r2 != z3.unknown:
                res = str(r2)
                backend = "z3-5.1(py,mbqi=off)"
                if r2 == z3.sat:
                    # without MBQI a 'sat' on a quantified problem is not trustworthy: keep it as unknown
                    if "forall" in smt2 or "exists" in smt2:
                        res = "unknown"
                        reason = "sat without mbqi on quantified query"
                    elif want_model:
                        model = s2.model().sexpr()
        return (name, res, backend, int((time.time() - t0) * 1000), model, reason)
    except Exception as ex:  # solver crash = undecided
        return (name, "unknown", backend, int((time.time() - t0) * 1000), None, f"exception {ex!r}")


def _cli(cmd, smt2, timeout_s):
    with tempfile.NamedTemporaryFile("w", suffix=".smt2", delete=False) as f:
        f.write(smt2)
        path = f.name
    try:
        p = subprocess.run(cmd + [path], capture_output=True, text=True, timeout=timeout_s)
        out = p.stdout.strip().splitlines()
        return out[0] if out else "unknown"
    except subprocess.TimeoutExpired:
        return "unknown"
    finally:
        os.unlink(path)


def _retry_other_backends(task):
    name, smt2, timeout_ms = task[0], task[1], task[2]
    t0 = time.time()
    timeout_s = max(5, timeout_ms // 1000)
    if "lambda" not in smt2:
        r = _cli(["/usr/bin/cvc5", "--strings-exp", f"--tlimit={timeout_ms}"], "(set-logic ALL)\n" + smt2, timeout_s + 5)
        if r in ("sat", "unsat"):
            return (name, r, "cvc5-1.0.3", int((time.time() - t0) * 1000), None, "")
    r = _cli(["/usr/bin/z3", f"-T:{timeout_s}"], smt2, timeout_s + 5)
    if r in ("sat", "unsat"):
        return (name, r, "z3-4.8.12", int((time.time() - t0) * 1000), None, "")
    return (name, "unknown", "all", int((time.time() - t0) * 1000), None, "all back ends unknown")


def discharge(obligations, timeout_ms=60000, procs=None, want_model=True):
    """-> {name: (verdict, backend, ms, model, reason)}.  Clauses with parts: the whole clause first (short budget);
    if that query is not `unsat`, every part is discharged on its own and the clause takes the worst part verdict."""
    with_parts = [o for o in obligations if getattr(o, "parts", None)]
    if not with_parts:
        return _discharge_flat(obligations, timeout_ms, procs, want_model)
    first = _discharge_flat(obligations, min(timeout_ms, 3000), procs, want_model=False, quick=True)
    redo = [o for o in obligations if first[o.name][0] != "unsat"]
    parts = []
    simple = []
    for o in redo:
        if getattr(o, "parts", None):
            parts.extend(o.parts)
        else:
            simple.append(o)
    second = _discharge_flat(parts + simple, timeout_ms, procs, want_model) if (parts or simple) else {}
    out = dict(first)
    for o in redo:
        if getattr(o, "parts", None):
            rs = [second[p.name] for p in o.parts]
            ms = first[o.name][2] + sum(r[2] for r in rs)
            if all(r[0] == "unsat" for r in rs):
                out[o.name] = ("unsat", "parts:" + rs[0][1], ms, None, f"{len(rs)} parts")
            else:
                bad = [(p.name, r) for p, r in zip(o.parts, rs) if r[0] != "unsat"]
                worst = "sat" if any(r[0] == "sat" for _n, r in bad) else "unknown"
                out[o.name] = (worst, bad[0][1][1], ms, bad[0][1][3], "failed parts: " + ", ".join(n.split("#")[-1] for n, _r in bad[:6]))
        else:
            out[o.name] = second[o.name]
    return out


def _discharge_flat(obligations, timeout_ms=60000, procs=None, want_model=True, quick=False):
    """-> {name: (verdict, backend, ms, model, reason)}"""
    procs = procs or min(16, os.cpu_count() or 4)
    tasks = [(o.name, o.smt2(), timeout_ms, want_model, quick) for o in obligations if not getattr(o, "trivial", False)]
    results = {o.name: ("unsat", "z3-simplify", 0, None, "") for o in obligations if getattr(o, "trivial", False)}
    if not tasks:
        return results
    ctx = mp.get_context("fork")
    with ctx.Pool(procs) as pool:
        for r in pool.imap_unordered(_solve_one, tasks, chunksize=1):
            results[r[0]] = r[1:]
        retry = [t for t in tasks if results[t[0]][0] == "unknown"] if not quick else []
        if retry:
            for r in pool.imap_unordered(_retry_other_backends, retry, chunksize=1):
                if r[1] != "unknown":
                    old = results[r[0]]
                    results[r[0]] = (r[1], r[2], old[2] + r[3], r[4], r[5])
    return results


def _cover_one(task):
    """-> 'ok' | 'infeasible' (branch conditions/precondition alone are contradictory: a path the weakened
    feasibility check explored needlessly) | 'vacuous' (only assumed contract clauses make it contradictory)"""
    name, smt2_full, smt2_hard, smt2_nobranch = task
    try:
        s = z3.Solver()
        s.set("timeout", 5000)
        s.from_string(smt2_full)
        if s.check() != z3.unsat:
            return (name, "ok")
        if smt2_hard is None:
            return (name, "vacuous")
        s2 = z3.Solver()
        s2.set("timeout", 10000)
        s2.from_string(smt2_hard)
        if s2.check() == z3.unsat:
            return (name, "infeasible")
        if smt2_nobranch is not None:
            # contract clauses contradict only this particular combination of branch decisions: the path is
            # excluded by (proved or assumed) contract facts - pruning, not vacuity
            s3 = z3.Solver()
            s3.set("timeout", 10000)
            s3.from_string(smt2_nobranch)
            if s3.check() != z3.unsat:
                return (name, "pruned")
        return (name, "vacuous")
    except Exception as ex:
        return (name, "ok")


def cover_tasks(covers):
    tasks = []
    for cv in covers:
        name, pc = cv[0], cv[1]
        hard = cv[2] if len(cv) > 2 else None
        nobranch = cv[3] if len(cv) > 3 else None
        s = z3.Solver()
        for c in pc:
            s.add(c)
        h = nb = None
        if hard is not None:
            s2 = z3.Solver()
            for c in hard:
                s2.add(c)
            h = s2.to_smt2()
        if nobranch is not None:
            s3 = z3.Solver()
            for c in nobranch:
                s3.add(c)
            nb = s3.to_smt2()
        tasks.append((name, s.to_smt2(), h, nb))
    return tasks


def check_covers(covers, procs=None):
    """Vacuity guard -> names of paths whose path condition is contradictory because of assumed contract clauses
    (callee postconditions, invariants, lemma conclusions): everything proved on such a path is void."""
    procs = procs or min(16, os.cpu_count() or 4)
    tasks = cover_tasks(covers)
    bad = []
    if not tasks:
        return bad
    ctx = mp.get_context("fork")
    with ctx.Pool(procs) as pool:
        for name, r in pool.imap_unordered(_cover_one, tasks, chunksize=4):
            if r == "vacuous":
                bad.append(name)
    return bad
