"""Which drivers, trusted base and assumptions belong to which property (the functions come from the
`props = [...]` tags of the contracts themselves)."""

T_PY = "T-PY: the engine's encoding of the Python subset (DESIGN.md 2.2; validated against CPython by bounded/axcheck, not proved)"
T_SMT = "T-SMT: answers of z3 5.1.0 / cvc5 1.0.3 / z3 4.8.12"
A_INT = "Python ints are mathematical integers (exact); strings are sequences of code points <= U+2FFFF (A1)"
A_TERM = "partial correctness only: termination of recursion (to_text over nested directives) is not proved (A5)"
A_TYPES = "objects' fields and parameters hold values of their annotated types (type invariants are assumed on entry and on every heap read)"

T_ANTLR = ("T-ANTLR: the ANTLR runtime and the generated CMakeLexer/CMakeParser behave as the ghost parse-tree "
           "interface of contracts/c_external.py says (children in source order, getText() = token text, quoted "
           "arguments start and end with a double quote, unquoted ones contain none; the walker calls enter* callbacks "
           "in source order)")
T_STRLIB = "T-STRLIB: models of str.split/join/lstrip/rstrip/strip/replace/lower, re.sub as an uninterpreted function (A2, A3)"
A_OWN = ("ownership discipline: the lists held in the fields named in OWNED_LIST_FIELDS are not shared between those "
         "fields (each is created by a `[]` in a constructor and never re-assigned: constructor postconditions + frames)")
A_SPEC_WF = "recursive spec functions are well-founded (they are also executed natively on every bounded case)"
BOUNDED_RULE = ("bounded (labelled, never counted as proved): the same contracts evaluated natively on the real functions "
                "while the real pipeline documents the drivers' inputs; distinct = (input, settings) pairs; "
                "evaluations = contract evaluations + cases")

_AGG_ASSUME = [A_INT, A_TYPES, A_OWN, A_SPEC_WF, A_TERM,
               "well-formedness W1 (balanced function/macro and class blocks) is a precondition of enterCommand_invocation "
               "for the block-closing commands (pop of an empty stack raises IndexError otherwise)",
               "the composition of the per-callback contracts over a whole file (induction over the walker's event "
               "sequence) is argued in DESIGN.md, not machine-checked"]

PROPS = {
    "C20": {
        "level": "proof",
        "drivers": ["drv_rstwriter"],
        "trusted_base": [T_PY, T_SMT],
        "assumptions": [A_INT, A_TERM, A_TYPES,
                        "tree_ok(self): every element reachable below a writer is of a class the writer API appends "
                        "(precondition of to_text/__str__; each API method is proved to append such an element, the "
                        "transitive closure over nesting is assumed)",
                        "SimpleTable, DocTest and section() are outside the property and have only their __str__ under contract",
                        "header character list non-empty and section level within it (precondition; IndexError otherwise)"],
        "explanation": "",
    },
    "C01": {
        "level": "proof", "drivers": ["drv_pipeline"],
        "trusted_base": [T_PY, T_SMT, T_ANTLR, T_STRLIB],
        "assumptions": _AGG_ASSUME + [
            "the Docstring token text is the exact source slice of the doccomment (T-ANTLR)",
            "L3 (the paragraph's lines are the doc lines, each prefixed): split/join inverse is assumed (T-STRLIB), "
            "Paragraph.build_text_string is proved against join(map(prefix+, split(text)))",
            "code points above U+2FFFF are outside z3's character range (A1)"],
        "bounded_rule": BOUNDED_RULE,
    },
    "C02": {
        "level": "proof", "drivers": ["drv_pipeline"],
        "trusted_base": [T_PY, T_SMT, T_ANTLR, T_STRLIB],
        "assumptions": _AGG_ASSUME + [
            "argument text of a parenthesised group is ANTLR's getText() (token texts concatenated: inner white space is "
            "not preserved) - 'as written' is read modulo that",
            "entries reaching process_docs satisfy entry_ok (established by the processors' postconditions)"],
        "bounded_rule": BOUNDED_RULE,
    },
    "C03": {
        "level": "proof", "drivers": ["drv_pipeline"],
        "trusted_base": [T_PY, T_SMT, T_ANTLR, T_STRLIB],
        "assumptions": _AGG_ASSUME + [
            "'the body of that very definition outside any nested definition' is the definition on top of the "
            "open-definition stack (standard meaning for a W1-balanced command sequence)",
            "re.sub(pattern, '', s) is an uninterpreted function of (pattern, s): the result holds for every strip pattern"],
        "bounded_rule": BOUNDED_RULE,
    },
    "C08": {
        "level": "proof", "drivers": ["drv_pipeline"],
        "trusted_base": [T_PY, T_SMT, T_ANTLR],
        "assumptions": _AGG_ASSUME + [
            "the ten include_undocumented_* flags are symbolic booleans in every obligation (all 2^10 combinations at once)",
            "the two-run statement (same projection under two settings) follows from the case table being a function of "
            "(command, consumed, flag of that kind) - argued in DESIGN.md"],
        "bounded_rule": BOUNDED_RULE,
    },
    "C09": {
        "level": "proof", "drivers": ["drv_pipeline"],
        "trusted_base": [T_PY, T_SMT, T_ANTLR, T_STRLIB],
        "assumptions": _AGG_ASSUME + [
            "domain W3: a member/constructor declaration is directly followed by its implementing definition",
            "ClassDocumentation.process is proved to place each member's directive in order under its label; the content "
            "of each member directive is MethodDocumentation.process's own contract"],
        "bounded_rule": BOUNDED_RULE,
    },
    "C10": {
        "level": "proof", "drivers": ["drv_pipeline"],
        "trusted_base": [T_PY, T_SMT, T_ANTLR, T_STRLIB],
        "assumptions": _AGG_ASSUME + ["token shapes wf_cmd (T-ANTLR) are the precondition of process_set"],
        "bounded_rule": BOUNDED_RULE,
    },
    "C11": {
        "level": "proof", "drivers": ["drv_pipeline"],
        "trusted_base": [T_PY, T_SMT, T_ANTLR, T_STRLIB],
        "assumptions": _AGG_ASSUME + [
            "domain W2: the exact keyword NAME occurs once and is followed by the name (lemma name_unique ties the "
            "general postcondition 'argument after the last NAME' to the statement)"],
        "bounded_rule": BOUNDED_RULE,
    },
}

MANIFEST_TEXT = {
    "C20": {
        "text": "Every public function of rstwriter.py that the property quantifies over (element builders, the writer API, "
                "both to_text serialisers, __str__ of every element class, title setter, clear) carries a pre/postcondition, "
                "frame and loop invariants; all obligations generated from the current source are discharged for all inputs, "
                "all document sizes and all nesting depths; lemmas tie the contracts to the sentences of the property "
                "(over/underline length, 3*d indentation). Purity/repeatability of serialisation is the empty modifies clause "
                "of to_text/__str__ proved per heap array. Proof is the right level: the property quantifies over unbounded API histories.",
        "design_ref": "DESIGN.md 4 C20",
        "note": "trusted: the engine's Python-subset semantics (validated, not proved), SMT solvers; assumed: type annotations are "
                "respected, tree_ok closure over nesting, partial correctness (no termination proof); the bounded run-time "
                "contract evaluation is a labelled stand-in/fallback and is never counted as proof",
        "technique": "contract-based deductive verification (own VC generator over the real AST + z3/cvc5), run-time contract evaluation as bounded fallback",
    },
}

TECH = "contract-based deductive verification (own VC generator over the real AST + z3/cvc5), run-time contract evaluation as bounded fallback"
_NOTE = "trusted: the engine's Python-subset semantics (validated, not proved), SMT solvers, the ANTLR parse-tree interface, string-library models; assumed: type annotations respected, list ownership discipline, partial correctness; the composition over a whole file is argued on paper; the bounded run-time contract evaluation is a labelled stand-in/fallback and never counted as proof"
MANIFEST_TEXT.update({
    "C01": {"text": "clean_doc_lines is proved equal to a spec (block indentation from the closing line, leader and one space removed, closing delimiter stripped from the last line) for all line lists; seven lemmas prove what that spec yields on every line shape of the canonical form for EVERY text t; enterDocumented_command/_module are proved to hand the processor exactly that text; every processor stores it unchanged; every renderer emits it as one paragraph of the entry's own directive; Paragraph prefixes every line. Proof because the property quantifies over all texts and all line counts.", "design_ref": "DESIGN.md 4 C01", "note": _NOTE, "technique": TECH},
    "C02": {"text": "The aggregator's four callbacks and thirteen processors are proved against a case table written from the property statement (one entry of the right kind per documentable command, nothing for every other command, the claimed definition and dangling doccomments produce nothing); process_docs is proved to render every entry exactly once in list order as one top-level directive of its kind after the module directive. Obligations hold for every aggregator state, every command and all settings.", "design_ref": "DESIGN.md 4 C02", "note": _NOTE, "technique": TECH},
    "C03": {"text": "process_function/_macro: name = first argument, parameters = remaining arguments after re.sub (uninterpreted: all patterns), never applied to the name; definition stack push/pop and top-of-stack marking by cmake_parse_arguments proved in the case table of enterCommand_invocation; the renderers are proved to show name(params) with '**kwargs' exactly once and last iff flagged.", "design_ref": "DESIGN.md 4 C03", "note": _NOTE, "technique": TECH},
    "C08": {"text": "The include_undocumented_* flags are symbolic in every obligation of enterCommand_invocation, so the case table (flag consulted only for commands not reached through a doccomment; off => no entry, placeholder frames keep the stacks balanced) is proved for all 2^10 settings at once. The obligation for a DOCUMENTED cpp_class with the class flag off is refuted on the current tree: known finding F5.", "design_ref": "DESIGN.md 4 C08", "note": _NOTE + "; open known finding F5 (known_findings.json)", "technique": TECH},
    "C09": {"text": "Class stack push/pop, registration in the innermost enclosing class, attachment of members/constructors/attributes to the class on top of the stack and to no other (conditional frames), parameter names from the claiming definition after the member strip pattern, macro flag; renderers: class directive with bases, labelled groups in source order, member signature, position-wise :param:/:type: fields, attribute default option.", "design_ref": "DESIGN.md 4 C09", "note": _NOTE, "technique": TECH},
    "C10": {"text": "process_set / process_option postconditions (type by value count, default as written, quotes removed from a single quoted value, list joined by single spaces, option help/default/bool) and the two renderers (data directive, fields, option note, OFF when omitted) for all argument lists.", "design_ref": "DESIGN.md 4 C10", "note": _NOTE, "technique": TECH},
    "C11": {"text": "The three test processors are proved against recursive specs (argument after the last NAME, EXPECTFAIL iff present, add_test signature = all arguments except the NAME keyword and the name BY POSITION) with loop invariants; lemmas tie these to the statement on its domain; renderers proved to show name, EXPECTFAIL and the matching warning.", "design_ref": "DESIGN.md 4 C11", "note": _NOTE, "technique": TECH},
})

NOT_APPLICABLE = [
    {"property_id": "C05", "reason": "decided by the generated ANTLR ATN tables under the third-party ANTLR interpreter vs. CMake's own lexer as oracle; no pre/postcondition on a CMinx Python function expresses 'for all strings of the cmake-language grammar' (DESIGN.md 4 C05); the Python-side obligations it contains (UTF-8 decoding, no exception from the aggregator) are decided under C01/C02"},
]
for _pid in ["C01", "C02", "C03", "C04", "C06", "C07", "C08", "C09", "C10", "C11", "C12", "C13", "C14", "C15", "C16", "C17", "C18", "C19"]:
    if _pid not in PROPS:
        NOT_APPLICABLE.append({"property_id": _pid, "reason": "not claimed yet: contracts for this property are still being built (work in progress, see DESIGN.md 8)"})
