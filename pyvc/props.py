"""Which drivers, trusted base and assumptions belong to which property (the functions come from the
`props = [...]` tags of the contracts themselves)."""

T_PY = "T-PY: the engine's encoding of the Python subset (DESIGN.md 2.2; cross-checked by evaluating the same contracts natively on real executions and by the seeded-change self-test, not proved)"
T_SMT = "T-SMT: answers of z3 5.1.0 / cvc5 1.0.3 / z3 4.8.12"
A_INT = "Python ints are mathematical integers (exact); strings are sequences of code points <= U+2FFFF (A1)"
A_TERM = "partial correctness only: termination of recursion (to_text over nested directives) is not proved (A5)"
A_TYPES = "objects' fields and parameters hold values of their annotated types (type invariants are assumed on entry and on every heap read)"

T_ANTLR = ("T-ANTLR: the ANTLR runtime and the generated CMakeLexer/CMakeParser behave as the ghost parse-tree "
           "interface of contracts/c_external.py says (children in source order, getText() = token text, quoted "
           "arguments start and end with a double quote, unquoted ones contain none; the walker calls enter* callbacks "
           "in source order)")
T_STRLIB = "T-STRLIB: models of str.split/join/lstrip/rstrip/strip/replace/lower, re.sub as an uninterpreted function (A2, A3)"
A_OWN = ("ownership discipline: the lists held in the fields named in OWNED_LIST_FIELDS are not shared between those "
         "fields (each is created by a `[]` in a constructor and never re-assigned: constructor postconditions + frames)")
A_SPEC_WF = "recursive spec functions are well-founded (they are also executed natively on every bounded case)"
BOUNDED_RULE = ("bounded (labelled, never counted as proved): the same contracts evaluated natively on the real functions "
                "while the real pipeline documents the drivers' inputs; distinct = (input, settings) pairs; "
                "evaluations = contract evaluations + cases")

_AGG_ASSUME = [A_INT, A_TYPES, A_OWN, A_SPEC_WF, A_TERM,
               "well-formedness W1 (balanced function/macro and class blocks) is a precondition of enterCommand_invocation "
               "for the block-closing commands (pop of an empty stack raises IndexError otherwise)",
               "the composition of the per-callback contracts over a whole file (induction over the walker's event "
               "sequence) is argued in DESIGN.md, not machine-checked"]

PROPS = {
    "C20": {
        "level": "proof",
        "drivers": ["drv_rstwriter"],
        "trusted_base": [T_PY, T_SMT],
        "assumptions": [A_INT, A_TERM, A_TYPES,
                        "tree_ok(self): every element reachable below a writer is of a class the writer API appends "
                        "(precondition of to_text/__str__; each API method is proved to append such an element, the "
                        "transitive closure over nesting is assumed)",
                        "SimpleTable, DocTest and section() are outside the property and have only their __str__ under contract",
                        "header character list non-empty and section level within it (precondition; IndexError otherwise)"],
        "explanation": "",
    },
    "C01": {
        "level": "proof", "drivers": ["drv_pipeline"],
        "trusted_base": [T_PY, T_SMT, T_ANTLR, T_STRLIB],
        "assumptions": _AGG_ASSUME + [
            "the Docstring token text is the exact source slice of the doccomment (T-ANTLR)",
            "L3 (the paragraph's lines are the doc lines, each prefixed): split/join inverse is assumed (T-STRLIB), "
            "Paragraph.build_text_string is proved against join(map(prefix+, split(text)))",
            "code points above U+2FFFF are outside z3's character range (A1)"],
        "bounded_rule": BOUNDED_RULE,
    },
    "C02": {
        "level": "proof", "drivers": ["drv_pipeline"],
        # the aggregator never constructs a DanglingDoccomment (the construction is commented out in
        # enterBracket_doccomment), so no pipeline execution can witness its renderer; its obligations are discharged
        "no_witness": ["cminx.documentation_types:DanglingDoccomment.process"],
        "trusted_base": [T_PY, T_SMT, T_ANTLR, T_STRLIB],
        "assumptions": _AGG_ASSUME + [
            "argument text of a parenthesised group is ANTLR's getText() (token texts concatenated: inner white space is "
            "not preserved) - 'as written' is read modulo that",
            "entries reaching process_docs satisfy entry_ok (established by the processors' postconditions)"],
        "bounded_rule": BOUNDED_RULE,
    },
    "C03": {
        "level": "proof", "drivers": ["drv_pipeline"],
        "trusted_base": [T_PY, T_SMT, T_ANTLR, T_STRLIB],
        "assumptions": _AGG_ASSUME + [
            "'the body of that very definition outside any nested definition' is the definition on top of the "
            "open-definition stack (standard meaning for a W1-balanced command sequence)",
            "re.sub(pattern, '', s) is an uninterpreted function of (pattern, s): the result holds for every strip pattern"],
        "bounded_rule": BOUNDED_RULE,
    },
    "C08": {
        "level": "proof", "drivers": ["drv_pipeline"],
        "trusted_base": [T_PY, T_SMT, T_ANTLR],
        "assumptions": _AGG_ASSUME + [
            "the ten include_undocumented_* flags are symbolic booleans in every obligation (all 2^10 combinations at once)",
            "the two-run statement (same projection under two settings) follows from the case table being a function of "
            "(command, consumed, flag of that kind) - argued in DESIGN.md"],
        "bounded_rule": BOUNDED_RULE,
    },
    "C09": {
        "level": "proof", "drivers": ["drv_pipeline"],
        "trusted_base": [T_PY, T_SMT, T_ANTLR, T_STRLIB],
        "assumptions": _AGG_ASSUME + [
            "domain W3: a member/constructor declaration is directly followed by its implementing definition",
            "ClassDocumentation.process is proved to place each member's directive in order under its label; the content "
            "of each member directive is MethodDocumentation.process's own contract"],
        "bounded_rule": BOUNDED_RULE,
    },
    "C10": {
        "level": "proof", "drivers": ["drv_pipeline"],
        "trusted_base": [T_PY, T_SMT, T_ANTLR, T_STRLIB],
        "assumptions": _AGG_ASSUME + ["token shapes wf_cmd (T-ANTLR) are the precondition of process_set"],
        "bounded_rule": BOUNDED_RULE,
    },
    "C11": {
        "level": "proof", "drivers": ["drv_pipeline"],
        "trusted_base": [T_PY, T_SMT, T_ANTLR, T_STRLIB],
        "assumptions": _AGG_ASSUME + [
            "domain W2: the exact keyword NAME occurs once and is followed by the name (lemma name_unique ties the "
            "general postcondition 'argument after the last NAME' to the statement)"],
        "bounded_rule": BOUNDED_RULE,
    },
}

T_OS = "T-OS: os.path.*, os.makedirs, os.walk, os.scandir, open/print behave as the contracts in contracts/c_external.py say"
T_LIB = "T-LIB: confuse, argparse, pathspec (gitwildmatch), docutils, cmake behave as documented"
A_WALK = ("ASSUMED (T-OS), composition on paper: os.walk(top, topdown=True) is modelled per step - each step hands out a "
          "directory path and two NEW lists of pairwise different names (first step: top itself); which directories later steps "
          "visit is os.walk's documented behaviour: exactly join(root, d) for the names d left in the step's directory list when "
          "the consumer asks for the next step, none after a break.  Every per-step fact is a `step` obligation of document()'s "
          "walk loop, discharged for an arbitrary step; the induction over the steps of a run is not mechanised")
A_FS = ("directory listings and file kinds (os.scandir, os.path.isdir/isfile/exists) are functions of the path for the duration "
        "of the run, except for directories the run itself creates with os.makedirs; the input path is not a directory created "
        "earlier in the same run (precondition of document())")
A_STRIP = ("RSTWriter.write_to_file opens file.strip(): page and index paths are stated modulo white space around the whole "
           "path (none when the output directory has no leading white space)")
TREE_RULE = ("bounded: generated directory trees x random option combinations + fixed multi-step scenarios through the real "
             "cminx.main, compared with independent oracles (expected page set, toctrees, exclusions, byte equality across "
             "runs); distinct = cases with different tree/options; evaluations = cases + native contract evaluations")
PROPS.update({
    "C04": {
        "level": "other", "drivers": ["drv_layout"],
        "trusted_base": [T_PY, T_SMT, T_ANTLR, T_STRLIB],
        "assumptions": _AGG_ASSUME + [
            "lexer half ASSUMED (T-ANTLR): inserting/removing Space, Newline, Line_comment, Bracket_comment tokens leaves the "
            "sequence of non-skipped tokens unchanged - no contract on a CMinx function expresses it; the bounded "
            "metamorphic driver stands in for it",
            "Python half proved: every aggregator contract is phrased over lname(ctx) = lower(name), token texts and the "
            "cleaned doc only (ctx.start.line / getText() feed only dropped log text); lemmas canon_* prove that the "
            "cleaned text does not depend on the block indentation w"],
        "explanation": "proof of the Python half (contracts tagged C04 + lemmas canon_open/_open_text/_empty/_text/_close/"
                       "_indent: the result is independent of the indentation and of the command-name case) + assumed lexer "
                       "half + labelled bounded metamorphic check (layout variants must give byte-identical reST)",
        "bounded_rule": "bounded: generated and sample modules x 6 layout-variant kinds; distinct = (module, variant kind)",
    },
    "C06": {
        "level": "other", "drivers": ["drv_faults"],
        "trusted_base": [T_PY, T_SMT, T_ANTLR],
        "assumptions": [A_INT, A_TYPES,
                        "ASSUMED (T-ANTLR): the lexer/parser call every registered listener on every error; with the bail "
                        "strategy an error ends cmake_file() with an exception; which inputs are lexer/parser errors is a "
                        "fact about the generated grammar tables",
                        "I/O errors (OSError) are not modelled (A4)"],
        "explanation": "proved: ParserErrorListener.syntaxError never returns normally; Documenter.__init__ attaches a raising "
                       "listener to BOTH lexer and parser, installs the bail strategy and decodes as UTF-8 (wiring obligations "
                       "over ghost observers); Documenter.process and document_single_file swallow nothing and write/print only "
                       "after process() returned (path obligations).  assumed: ANTLR error reporting.  bounded stand-in: "
                       "fault kind x position through the real cminx.main (single files and recursive directory runs)",
        "bounded_rule": "bounded: small valid modules x 8 fault kinds x command-boundary positions + 15 directory runs; "
                        "distinct = (module, fault, position)",
    },
    "C07": {
        "level": "other", "drivers": ["drv_docutils", "drv_rstwriter"],
        "trusted_base": [T_PY, T_SMT, T_LIB],
        "assumptions": [A_INT, A_TYPES, A_TERM,
                        "reST model (stated axiom, audited by hand): a directive's content is the maximal run of following lines "
                        "that are blank or indented by at least the directive's indent + 3",
                        "argument values and field texts contain no line break (property precondition); a multi-line Field text is "
                        "not re-indented",
                        "docutils acceptance itself is third-party: bounded stand-in"],
        "explanation": "proved: the indentation/ordering discipline of rstwriter.py (C20 contracts) and, for every renderer, "
                       "which elements are children of which directive (postconditions of all *.process: notes, warnings, fields, "
                       "options, doc text and members are appended to the entry's own directive, which is one top-level "
                       "directive; process_docs: title, then module directive, then entries in order).  bounded: docutils parse "
                       "of generated modules with stub directives (no message >= ERROR, top-level shape)",
        "bounded_rule": "bounded: generated modules with valid-reST doc texts of 8 shapes x all entry kinds, class nesting <= 3; "
                        "distinct = generated module",
    },
    "C12": {
        "level": "proof", "drivers": ["drv_pipeline", "drv_tree"],
        "trusted_base": [T_PY, T_SMT, T_ANTLR, T_STRLIB, T_OS],
        "assumptions": _AGG_ASSUME + [
            "re.sub('\\.cmake$', '', s) is kept uninterpreted (A3): 'drops the .cmake extension' is its documented meaning",
            "a relative path that EQUALS the separator string is replaced by the bare prefix (the code's special case; the "
            "names clause of document_single_file exempts it)",
            "the names clause of document_single_file is over its locals header_name/module_name - that these are the "
            "arguments of the Documenter constructor two lines later is read off the source, not proved",
            "default prefix = name of the input directory: proved as a ghost postcondition of document() under C13-C15/C17/C18 "
            "(document() is not re-verified under C12: the bounded tree driver checks the titles of real runs, incl. several "
            "inputs per run); injectivity of page names for different relative paths is not proved",
            "split/join inverse for the module doccomment's first line (T-STRLIB)"],
        "bounded_rule": BOUNDED_RULE,
    },
    "C13": {
        "level": "proof", "drivers": ["drv_tree"],
        "trusted_base": [T_PY, T_SMT, T_OS, T_LIB],
        "assumptions": [A_INT, A_TYPES, A_TERM, A_WALK, A_FS, A_STRIP,
                        "'processed' when auto-exclusion is on: the directory holds a kept file whose name ends in '.cmake' in "
                        "lower case (the property's quantifier puts a lower-case .cmake file next to mixed-case ones); without "
                        "-r the walk ends after its first step, processed or skipped (F19 repaired)",
                        "page content = what CMinx produces for the file on its own: every page is produced by the same call "
                        "document_single_file(file, top, settings') whose contract is proved; settings' differs from the caller's "
                        "only in rst.prefix (copy.deepcopy contract, T-OS/T-LIB)"],
        "bounded_rule": TREE_RULE,
    },
    "C14": {
        "level": "proof", "drivers": ["drv_tree"],
        "trusted_base": [T_PY, T_SMT, T_OS, T_LIB],
        "assumptions": [A_INT, A_TYPES, A_TERM, A_WALK, A_FS, A_STRIP,
                        "closure ('every page is reachable, no entry dangles') follows from the step clauses by the walk "
                        "contract: the '<sub>/index.rst' entries are exactly the directories os.walk descends into; a "
                        "sub-directory that is descended into but skipped by auto-exclusion (no kept *.cmake file of its own) "
                        "gets no index.rst - the property's quantifier names such directories; the bounded driver checks "
                        "reachability on real runs",
                        "the serialisation of the index page (heading, options, content in order) is proved in C20"],
        "bounded_rule": TREE_RULE,
    },
    "C15": {
        "level": "proof", "drivers": ["drv_tree"],
        "trusted_base": [T_PY, T_SMT, T_OS, T_LIB],
        "assumptions": [A_INT, A_TYPES, A_TERM, A_WALK, A_FS,
                        "gitignore semantics of a pattern is pathspec's (T-LIB): `excluded(patterns, path)` is uninterpreted; a "
                        "compiled PathSpec decides like the pattern list it was compiled from (contract of from_lines); patterns "
                        "are applied to absolute paths, a directory with a trailing separator",
                        "regardless of listing order / number of matches: the lists os.walk hands out are arbitrary symbolic lists "
                        "of pairwise different names"],
        "bounded_rule": TREE_RULE,
    },
    "C16": {
        "level": "exploration", "drivers": ["drv_settings"],
        "trusted_base": [T_LIB],
        "assumptions": ["main() is almost entirely calls into argparse and confuse (third-party): no contract on a CMinx function "
                        "decides the layering; the driver enumerates the property's own finite quantifier for single options "
                        "(every option x every subset of sources) through the real main()"],
        "bounded_rule": "exhaustive over (option, subset of setting sources) with distinct values per source; plus exclude-filter "
                        "union over all subsets, output-directory resolution modes, wrong-type values; distinct = cases",
    },
    "C17": {
        "level": "other", "drivers": ["drv_tree", "drv_pipeline"],
        "trusted_base": [T_PY, T_SMT, T_OS, T_LIB],
        "assumptions": [A_INT, A_TYPES, A_WALK, A_FS,
                        "functional postconditions (result = spec(content, relative path, settings)) are proved for the "
                        "aggregator, renderers, writer, document_single_file and now document(): its frame shows that it changes "
                        "nothing but the ghost file system / stdout (in particular not the caller's Settings: the prefix is "
                        "written into a deep copy), every page and index path is a function of (output directory, path relative "
                        "to the input path) and the files of a directory are handled in sorted name order; 'same bytes in every "
                        "history' is then an argument on paper over these contracts - the run-level statement is decided by the "
                        "bounded tree driver (moved tree, other cwd, several inputs in one run, hash seeds)"],
        "explanation": "proof of the frames and functional contracts (document, document_single_file, Documenter, renderers, "
                       "writer) + labelled bounded byte-equality runs",
        "bounded_rule": TREE_RULE,
    },
    "C18": {
        "level": "proof", "drivers": ["drv_tree"],
        "trusted_base": [T_PY, T_SMT, T_OS],
        "assumptions": [A_INT, A_TYPES, A_WALK, A_FS, A_STRIP, "I/O errors are not modelled",
                        "ghost file system: os.makedirs(p) creates p and ancestors only (FileExistsError when p is a file), "
                        "open(p,'w').write writes p only, print writes one line to stdout (T-OS)",
                        "'inside the output directory' is proved as the FORM of every path handed to makedirs/open: "
                        "join(out, relpath(dir, top)), join(join(out, relpath(dir, top)), 'index.rst') and "
                        "join(out, join(dirname(relpath(file, top)), stem + '.rst')); that relpath of a descendant has no '..' "
                        "component is T-OS",
                        "main() is not under contract (argparse/confuse): the drivers run it"],
        "bounded_rule": TREE_RULE,
    },
    "C19": {
        "level": "exploration", "drivers": ["drv_cmake"],
        "trusted_base": [T_LIB],
        "assumptions": ["no deductive verifier or VC generator for CMake script exists here: the contract of cminx_gen_rst is "
                        "stated on the real function and checked at run time by the real cmake -P"],
        "bounded_rule": "enumerated: 7 inputs x up to 8 extra-argument lists; distinct = (input, extra arguments)",
    },
})

MANIFEST_TEXT = {
    "C20": {
        "text": "Every public function of rstwriter.py that the property quantifies over (element builders, the writer API, "
                "both to_text serialisers, __str__ of every element class, title setter, clear) carries a pre/postcondition, "
                "frame and loop invariants; all obligations generated from the current source are discharged for all inputs, "
                "all document sizes and all nesting depths; lemmas tie the contracts to the sentences of the property "
                "(over/underline length, 3*d indentation). Purity/repeatability of serialisation is the empty modifies clause "
                "of to_text/__str__ proved per heap array. Proof is the right level: the property quantifies over unbounded API histories.",
        "design_ref": "DESIGN.md 4 C20",
        "note": "trusted: the engine's Python-subset semantics (validated, not proved), SMT solvers; assumed: type annotations are "
                "respected, tree_ok closure over nesting, partial correctness (no termination proof); the bounded run-time "
                "contract evaluation is a labelled stand-in/fallback and is never counted as proof",
        "technique": "contract-based deductive verification (own VC generator over the real AST + z3/cvc5), run-time contract evaluation as bounded fallback",
    },
}

TECH = "contract-based deductive verification (own VC generator over the real AST + z3/cvc5), run-time contract evaluation as bounded fallback"
_NOTE = "trusted: the engine's Python-subset semantics (validated, not proved), SMT solvers, the ANTLR parse-tree interface, string-library models; assumed: type annotations respected, list ownership discipline, partial correctness; the composition over a whole file is argued on paper; the bounded run-time contract evaluation is a labelled stand-in/fallback and never counted as proof"
MANIFEST_TEXT.update({
    "C01": {"text": "clean_doc_lines is proved equal to a spec (block indentation from the closing line, leader and one space removed, closing delimiter stripped from the last line) for all line lists; seven lemmas prove what that spec yields on every line shape of the canonical form for EVERY text t; enterDocumented_command/_module are proved to hand the processor exactly that text; every processor stores it unchanged; every renderer emits it as one paragraph of the entry's own directive; Paragraph prefixes every line. Proof because the property quantifies over all texts and all line counts.", "design_ref": "DESIGN.md 4 C01", "note": _NOTE, "technique": TECH},
    "C02": {"text": "The aggregator's four callbacks and thirteen processors are proved against a case table written from the property statement (one entry of the right kind per documentable command, nothing for every other command, the claimed definition and dangling doccomments produce nothing); process_docs is proved to render every entry exactly once in list order as one top-level directive of its kind after the module directive. Obligations hold for every aggregator state, every command and all settings.", "design_ref": "DESIGN.md 4 C02", "note": _NOTE, "technique": TECH},
    "C03": {"text": "process_function/_macro: name = first argument, parameters = remaining arguments after re.sub (uninterpreted: all patterns), never applied to the name; definition stack push/pop and top-of-stack marking by cmake_parse_arguments proved in the case table of enterCommand_invocation; the renderers are proved to show name(params) with '**kwargs' exactly once and last iff flagged.", "design_ref": "DESIGN.md 4 C03", "note": _NOTE, "technique": TECH},
    "C08": {"text": "The include_undocumented_* flags are symbolic in every obligation of enterCommand_invocation, so the case table (flag consulted only for commands not reached through a doccomment; off => no entry, placeholder frames keep the stacks balanced) is proved for all 2^10 settings at once. The obligation for a DOCUMENTED cpp_class with the class flag off is refuted on the current tree: known finding F5.", "design_ref": "DESIGN.md 4 C08", "note": _NOTE + "; open known finding F5 (known_findings.json)", "technique": TECH},
    "C09": {"text": "Class stack push/pop, registration in the innermost enclosing class, attachment of members/constructors/attributes to the class on top of the stack and to no other (conditional frames), parameter names from the claiming definition after the member strip pattern, macro flag; renderers: class directive with bases, labelled groups in source order, member signature, position-wise :param:/:type: fields, attribute default option.", "design_ref": "DESIGN.md 4 C09", "note": _NOTE, "technique": TECH},
    "C10": {"text": "process_set / process_option postconditions (type by value count, default as written, quotes removed from a single quoted value, list joined by single spaces, option help/default/bool) and the two renderers (data directive, fields, option note, OFF when omitted) for all argument lists.", "design_ref": "DESIGN.md 4 C10", "note": _NOTE, "technique": TECH},
    "C11": {"text": "The three test processors are proved against recursive specs (argument after the last NAME, EXPECTFAIL iff present, add_test signature = all arguments except the NAME keyword and the name BY POSITION) with loop invariants; lemmas tie these to the statement on its domain; renderers proved to show name, EXPECTFAIL and the matching warning.", "design_ref": "DESIGN.md 4 C11", "note": _NOTE, "technique": TECH},
})

_NOTE_B = ("bounded stand-in, labelled as such and never counted as proof; trusted: third-party libraries and the OS; "
           "what is proved around it is listed in the evidence file")
_NOTE_W = _NOTE + "; the composition of per-step contracts over a whole os.walk run is os.walk's trusted contract (paper induction)"
MANIFEST_TEXT.update({
    "C04": {"text": "Python half proved (aggregator contracts are functions of the lower-cased name, token texts and the cleaned doc; lemmas show the cleaned text is independent of the block indentation); the lexer half (skipped tokens) is a property of the generated ATN under the ANTLR interpreter: assumed, with a bounded metamorphic stand-in (6 layout-variant kinds must give byte-identical reST).", "design_ref": "DESIGN.md 4 C04", "note": _NOTE, "technique": TECH + "; metamorphic bounded stand-in for the lexer half"},
    "C06": {"text": "Proved: the error listener never returns, the Documenter wires a raising listener to lexer AND parser plus the bail strategy, nothing on the path main->...->callbacks swallows an exception, a page is written/printed only after processing returned. Assumed: ANTLR reports every error to listeners. Bounded stand-in: fault injection through the real main.", "design_ref": "DESIGN.md 4 C06", "note": _NOTE, "technique": TECH + "; fault-injection bounded stand-in"},
    "C07": {"text": "Proved: which elements each renderer nests under which directive and the writer's indentation/ordering discipline; stated axiom on reST directive content; docutils acceptance is bounded (generated modules parsed with stub directives).", "design_ref": "DESIGN.md 4 C07", "note": _NOTE, "technique": TECH + "; docutils bounded stand-in"},
    "C12": {"text": "Proved: heading = header character repeated to the title's length (loop invariant + lemma), title setter re-frames; document_single_file hands the Documenter title = page_name(prefix, sep, rel, keep_titles) and module = page_name(..., keep_modules) with rel = relative path (lone file: base name); process_docs puts exactly one module directive first and lets a named @module doccomment set title and module name; enterDocumented_module stores name and text in one module entry and touches nothing else. The default prefix computed in document() is covered by the bounded tree driver.", "design_ref": "DESIGN.md 4 C12", "note": _NOTE, "technique": TECH},
    "C13": {"text": "document() is under contract: for an ARBITRARY step of the directory walk (any listing, any order, any settings) it is proved that a skipped directory leaves no trace, that otherwise exactly one directory is created below the output directory, one index.rst is written at its relative path and one page per kept file whose name ends in .cmake in any letter case at out/dirname(rel)/stem.rst (document_single_file's proved contract) and nothing else, that the files handled are exactly the kept ones in sorted order, and that without -r the loop ends after the first processed directory; lone-file and excluded-input branches are function postconditions. How steps compose into a run is os.walk's trusted contract (paper induction).", "design_ref": "DESIGN.md 4 C13", "note": _NOTE_W, "technique": TECH + "; bounded tree driver with an independent oracle as labelled stand-in for the composition over os.walk"},
    "C14": {"text": "For an arbitrary walk step it is proved that the index page consists of a heading titled prefix (top directory) or prefix+separator+relative path and ONE toctree with option maxdepth 2 whose entries are '<sub>/index.rst' for exactly the sub-directories left in os.walk's own list (recursive mode only; sorted) followed by the base name of every file a page is written for, each exactly once and in that order, and that this page is what is written to <out>/<rel>/index.rst; serialisation of directive and options is proved in C20. Closure over the whole tree follows with os.walk's trusted contract; the bounded driver checks reachability on real runs.", "design_ref": "DESIGN.md 4 C14", "note": _NOTE_W, "technique": TECH + "; bounded tree driver (reachability from the top index) as labelled stand-in for the composition over os.walk"},
    "C15": {"text": "The three pruning loops of document() are proved with inductive invariants over arbitrary symbolic listings (kept prefix / untouched rest, counting functions, pairwise different names): after them the walk's own directory list holds exactly the names that match no pattern (and, with auto-exclusion, directly contain a non-excluded .cmake file) - soundness and completeness are separate step obligations, independent of how many siblings match and of the listing order; the files handled are exactly those matching no pattern; an input path that is itself excluded changes nothing (postcondition). Pattern semantics is pathspec's (uninterpreted).", "design_ref": "DESIGN.md 4 C15", "note": _NOTE_W, "technique": TECH + "; bounded tree driver with pathspec as independent oracle as labelled stand-in"},
    "C16": {"text": "The layering is decided inside confuse/argparse; the driver enumerates every option x every subset of sources through the real main (exhaustive for single options) and checks union of exclude filters, output-directory resolution and type rejection.", "design_ref": "DESIGN.md 4 C16", "note": _NOTE_B, "technique": "exhaustive run-time enumeration over the property's finite quantifier (third-party libraries decide it)"},
    "C17": {"text": "Proved: document() changes nothing but the ghost file system/stdout (not the caller's Settings, not its own inputs), hands every file the same deep-copied settings, derives every written path from (output directory, path relative to the input path) and handles the files of a directory in sorted order; together with the functional contracts of document_single_file, Documenter, aggregator, renderers and writer (content = function of file content, relative path, settings) this gives the statement on paper. The run-level statement (byte equality across moved trees, working directories, several inputs per run, hash seeds) is decided by the bounded tree driver.", "design_ref": "DESIGN.md 4 C17", "note": _NOTE_W, "technique": TECH + "; bounded byte-equality runs decide the run-level statement"},
    "C18": {"text": "Effect contracts over a ghost file system/stdout are proved for write_to_file, document_single_file and document(): with an output directory every os.makedirs/open target has the form join(out, relpath(dir, top))[/index.rst] or join(out, dirname(relpath(file, top))/stem.rst) and nothing is printed; without one nothing is created or written and exactly one page per CMake file is printed in sorted name order (index pages are not printed); what earlier inputs of the run wrote is left alone (append-only postcondition); conditional frames make 'nothing else changed' a proved frame, not an assumption. main() (argparse/confuse) is exercised by the bounded driver (sandbox snapshots, stdout vs -o).", "design_ref": "DESIGN.md 4 C18", "note": _NOTE_W, "technique": TECH + "; sandbox-snapshot bounded stand-in for main()"},
    "C19": {"text": "Run-time contract on the real cminx_gen_rst through the real cmake -P: argv, output tree equality with the direct CLI run, fatal failure.", "design_ref": "DESIGN.md 4 C19", "note": _NOTE_B, "technique": "bounded run-time contract check of the CMake function (no verifier for CMake script)"},
})

NOT_APPLICABLE = [
    {"property_id": "C05", "reason": "decided by the generated ANTLR ATN tables under the third-party ANTLR interpreter vs. CMake's own lexer as oracle; no pre/postcondition on a CMinx Python function expresses 'for all strings of the cmake-language grammar' (DESIGN.md 4 C05); the Python-side obligations it contains (UTF-8 decoding, no exception from the aggregator) are decided under C01/C02"},
]
for _pid in ["C01", "C02", "C03", "C04", "C06", "C07", "C08", "C09", "C10", "C11", "C12", "C13", "C14", "C15", "C16", "C17", "C18", "C19"]:
    if _pid not in PROPS:
        NOT_APPLICABLE.append({"property_id": _pid, "reason": "not claimed yet: contracts for this property are still being built (work in progress, see DESIGN.md 8)"})
