"""Which drivers, trusted base and assumptions belong to which property (the functions come from the
`props = [...]` tags of the contracts themselves)."""

T_PY = "T-PY: the engine's encoding of the Python subset (DESIGN.md 2.2; validated against CPython by bounded/axcheck, not proved)"
T_SMT = "T-SMT: answers of z3 5.1.0 / cvc5 1.0.3 / z3 4.8.12"
A_INT = "Python ints are mathematical integers (exact); strings are sequences of code points <= U+2FFFF (A1)"
A_TERM = "partial correctness only: termination of recursion (to_text over nested directives) is not proved (A5)"
A_TYPES = "objects' fields and parameters hold values of their annotated types (type invariants are assumed on entry and on every heap read)"

PROPS = {
    "C20": {
        "level": "proof",
        "drivers": ["drv_rstwriter"],
        "trusted_base": [T_PY, T_SMT],
        "assumptions": [A_INT, A_TERM, A_TYPES,
                        "tree_ok(self): every element reachable below a writer is of a class the writer API appends "
                        "(precondition of to_text/__str__; each API method is proved to append such an element, the "
                        "transitive closure over nesting is assumed)",
                        "SimpleTable, DocTest and section() are outside the property and have only their __str__ under contract",
                        "header character list non-empty and section level within it (precondition; IndexError otherwise)"],
        "explanation": "",
    },
}

MANIFEST_TEXT = {
    "C20": {
        "text": "Every public function of rstwriter.py that the property quantifies over (element builders, the writer API, "
                "both to_text serialisers, __str__ of every element class, title setter, clear) carries a pre/postcondition, "
                "frame and loop invariants; all obligations generated from the current source are discharged for all inputs, "
                "all document sizes and all nesting depths; lemmas tie the contracts to the sentences of the property "
                "(over/underline length, 3*d indentation). Purity/repeatability of serialisation is the empty modifies clause "
                "of to_text/__str__ proved per heap array. Proof is the right level: the property quantifies over unbounded API histories.",
        "design_ref": "DESIGN.md 4 C20",
        "note": "trusted: the engine's Python-subset semantics (validated, not proved), SMT solvers; assumed: type annotations are "
                "respected, tree_ok closure over nesting, partial correctness (no termination proof); the bounded run-time "
                "contract evaluation is a labelled stand-in/fallback and is never counted as proof",
        "technique": "contract-based deductive verification (own VC generator over the real AST + z3/cvc5), run-time contract evaluation as bounded fallback",
    },
}

NOT_APPLICABLE = [
    {"property_id": "C05", "reason": "decided by the generated ANTLR ATN tables under the third-party ANTLR interpreter vs. CMake's own lexer as oracle; no pre/postcondition on a CMinx Python function expresses 'for all strings of the cmake-language grammar' (DESIGN.md 4 C05); the Python-side obligations it contains (UTF-8 decoding, no exception from the aggregator) are decided under C01/C02"},
]
for _pid in ["C01", "C02", "C03", "C04", "C06", "C07", "C08", "C09", "C10", "C11", "C12", "C13", "C14", "C15", "C16", "C17", "C18", "C19"]:
    if _pid not in PROPS:
        NOT_APPLICABLE.append({"property_id": _pid, "reason": "not claimed yet: contracts for this property are still being built (work in progress, see DESIGN.md 8)"})
