"""Debug / development driver:  python -m pyvc.run <function-key-substring> ..."""
import sys
import time
import os
from .world import World
from .engine import FunctionVerifier
from .sv import VCError
from . import solve


def verify_function(world, fi, recv=None, opts=None):
    fv = FunctionVerifier(world, fi, recv, opts)
    obs = fv.run()
    return fv, obs


def targets(world, pats):
    out = []
    for key, c in world.contracts.items():
        if key.startswith("ext:") or c.trusted:
            continue
        if pats and not any((key == p[:-1]) if p.endswith('$') else (p in key) for p in pats):
            continue
        fkey = key
        fi = world.prog.functions.get(fkey)
        if fi is None:
            raise VCError(f"contract {key}: no such function in the program")
        for r in (c.receivers or [None]):
            out.append((fi, r))
    return out


class _Ob:
    def __init__(self, d, parent=None):
        self.name, self.kind, self.where = d["name"], (parent or d)["kind"], (parent or d)["where"]
        self.trivial = d.get("trivial", False)
        self._s = d["smt2"]
        self.parts = [_Ob(p, d) for p in d.get("parts", [])] or None

    def smt2(self):
        return self._s


def main_par(argv):
    """parallel generation exactly as check.py does it:  python -m pyvc.run --par <pattern>  (PYVC_ONLY=<regex>)"""
    import multiprocessing as mp
    import re
    from . import pargen
    src = os.environ.get("CMINX_SRC", "/repo/src")
    here = os.path.dirname(os.path.dirname(os.path.abspath(__file__)))
    load = lambda: World(src, os.path.join(here, "contracts"))
    world = load()
    pats = [a for a in argv if not a.startswith("-")]
    tg = [(fi.key, r) for fi, r in targets(world, pats)]
    t0 = time.time()
    gens = pargen.generate(load, tg)
    obs, covers = [], []
    for g in gens:
        if not g["ok"]:
            print(f"ERROR {g['label']}: {g['error']}")
            continue
        print(f"{g['label']}: paths={g['paths']} obligations={len(g['obligations'])} cpu={g['gen_s']:.0f}s")
        obs.extend(_Ob(o) for o in g["obligations"])
        covers.extend(g["covers"])
    print(f"generation wall={time.time()-t0:.1f}s")
    if os.environ.get("PYVC_GEN_ONLY"):
        return
    only = os.environ.get("PYVC_ONLY")
    if only:
        obs = [o for o in obs if re.search(only, o.name)]
        print(f"restricted to {len(obs)} obligations matching {only!r}")
    else:
        tc = time.time()
        bad = solve.run_cover_tasks(covers)
        print(f"covers wall={time.time()-tc:.1f}s")
        for nme in bad:
            print("  VACUOUS path condition:", nme)
        print(f"covers={len(covers)} vacuous={len(bad)}")
    td = time.time()
    res = solve.discharge(obs, timeout_ms=int(os.environ.get("PYVC_TIMEOUT_MS", "20000")))
    print(f"discharge wall={time.time()-td:.1f}s")
    nbad = 0
    for o in sorted(obs, key=lambda o: o.name):
        v = res[o.name]
        if v[0] != "unsat" or "-v" in argv:
            print(f"  {v[0]:8s} {v[2]:6d}ms {v[1]:12s} {o.name}   {o.where}  {v[4] if len(v) > 4 else ''}")
            if v[0] != "unsat":
                nbad += 1
                d = os.environ.get("PYVC_DUMP")
                if d:
                    os.makedirs(d, exist_ok=True)
                    with open(os.path.join(d, o.name.replace("/", "_").replace(":", "_") + ".smt2"), "w") as f:
                        f.write(o.smt2())
    print(f"obligations={len(obs)} discharged={len(obs)-nbad} not={nbad}")


def main(argv):
    if "--par" in argv:
        return main_par([a for a in argv if a != "--par"])
    src = os.environ.get("CMINX_SRC", "/repo/src")
    here = os.path.dirname(os.path.dirname(os.path.abspath(__file__)))
    world = World(src, os.path.join(here, "contracts"))
    pats = [a for a in argv if not a.startswith("-")]
    verbose = "-v" in argv
    allobs = []
    allcov = []
    for fi, r in targets(world, pats):
        t0 = time.time()
        try:
            fv, obs = verify_function(world, fi, r)
        except VCError as ex:
            print(f"ERROR {fi.key}[{r}]: {ex}")
            continue
        if "virtual:" + fi.name in world.contracts:
            obs = fv.run_virtual_check()
        print(f"{fv.label}: paths={fv.paths} obligations={len(obs)} gen={time.time()-t0:.1f}s")
        allobs.extend(obs)
        allcov.extend(fv.covers)
    if os.environ.get("PYVC_GEN_ONLY"):
        return
    vac = solve.check_covers(allcov)
    for n in vac:
        print("  VACUOUS path condition:", n)
    print(f"covers={len(allcov)} vacuous={len(vac)}")
    res = solve.discharge(allobs, timeout_ms=int(os.environ.get("PYVC_TIMEOUT_MS", "20000")))
    bad = 0
    for o in allobs:
        v = res[o.name]
        if v[0] != "unsat" or verbose:
            print(f"  {v[0]:8s} {v[2]:6d}ms {v[1]:12s} {o.name}   {o.where}")
            if v[0] != "unsat":
                bad += 1
                d = os.environ.get("PYVC_DUMP")
                if d:
                    os.makedirs(d, exist_ok=True)
                    with open(os.path.join(d, o.name.replace("/", "_").replace(":", "_") + ".smt2"), "w") as f:
                        f.write(o.smt2())
    print(f"obligations={len(allobs)} discharged={len(allobs)-bad} not={bad}")


if __name__ == "__main__":
    main(sys.argv[1:])
