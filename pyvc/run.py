"""Debug / development driver:  python -m pyvc.run <function-key-substring> ..."""
import sys
import time
import os
from .world import World
from .engine import FunctionVerifier
from .sv import VCError
from . import solve


def verify_function(world, fi, recv=None, opts=None):
    fv = FunctionVerifier(world, fi, recv, opts)
    obs = fv.run()
    return fv, obs


def targets(world, pats):
    out = []
    for key, c in world.contracts.items():
        if key.startswith("ext:") or c.trusted:
            continue
        if pats and not any(p in key for p in pats):
            continue
        fkey = key
        fi = world.prog.functions.get(fkey)
        if fi is None:
            raise VCError(f"contract {key}: no such function in the program")
        for r in (c.receivers or [None]):
            out.append((fi, r))
    return out


def main(argv):
    src = os.environ.get("CMINX_SRC", "/repo/src")
    here = os.path.dirname(os.path.dirname(os.path.abspath(__file__)))
    world = World(src, os.path.join(here, "contracts"))
    pats = [a for a in argv if not a.startswith("-")]
    verbose = "-v" in argv
    allobs = []
    allcov = []
    for fi, r in targets(world, pats):
        t0 = time.time()
        try:
            fv, obs = verify_function(world, fi, r)
        except VCError as ex:
            print(f"ERROR {fi.key}[{r}]: {ex}")
            continue
        if "virtual:" + fi.name in world.contracts:
            obs = fv.run_virtual_check()
        print(f"{fv.label}: paths={fv.paths} obligations={len(obs)} gen={time.time()-t0:.1f}s")
        allobs.extend(obs)
        allcov.extend(fv.covers)
    vac = solve.check_covers(allcov)
    for n in vac:
        print("  VACUOUS path condition:", n)
    print(f"covers={len(allcov)} vacuous={len(vac)}")
    res = solve.discharge(allobs, timeout_ms=int(os.environ.get("PYVC_TIMEOUT_MS", "20000")))
    bad = 0
    for o in allobs:
        v = res[o.name]
        if v[0] != "unsat" or verbose:
            print(f"  {v[0]:8s} {v[2]:6d}ms {v[1]:12s} {o.name}   {o.where}")
            if v[0] != "unsat":
                bad += 1
                d = os.environ.get("PYVC_DUMP")
                if d:
                    os.makedirs(d, exist_ok=True)
                    with open(os.path.join(d, o.name.replace("/", "_").replace(":", "_") + ".smt2"), "w") as f:
                        f.write(o.smt2())
    print(f"obligations={len(allobs)} discharged={len(allobs)-bad} not={bad}")


if __name__ == "__main__":
    main(sys.argv[1:])
