"""The symbolic executor / verification-condition generator (DESIGN.md section 2).

One `FunctionVerifier` handles one real function: it walks the function's AST (as read from
/repo by front.Program) path by path, replaces every call by the callee's contract, cuts
loops at their invariants and records proof obligations (path condition => goal).
Obligations are discharged later by solve.py; nothing in here decides a verdict."""
import ast
import itertools
import time
import z3

from .sv import (V, VCError, Heap, Ref, NULL, birth, typeof, IntS, BoolS, StrS, Dyn, mk_int, mk_bool, mk_str, len_key, arr_key,
                 mk_ref, mk_list, mk_opt, mk_enum, NONE, fresh_of, sort_of, elem_array_key, parse_type)

# ---------------------------------------------------------------- control-flow signals


class ReturnSig(Exception):
    def __init__(self, value):
        self.value = value


class BreakSig(Exception):
    pass


class ContinueSig(Exception):
    pass


class RaiseSig(Exception):
    def __init__(self, exc_type, where=""):
        self.exc_type = exc_type
        self.where = where


def trace_id(vals, extra=0):
    """stable short id of a decision vector (names of obligations/covers do not depend on the exploration order)"""
    import hashlib
    return hashlib.blake2b(bytes(1 if v else 0 for v in vals) + b"|%d" % extra, digest_size=6).hexdigest()


class PathEnd(Exception):
    """This path is finished (infeasible, or cut after a loop-body check)."""


EXC_PARENTS = {
    "IndexError": "LookupError", "KeyError": "LookupError", "LookupError": "Exception",
    "ValueError": "Exception", "TypeError": "Exception", "AttributeError": "Exception",
    "NotImplementedError": "RuntimeError", "RuntimeError": "Exception",
    "CMakeSyntaxException": "Exception", "CMakeSyntaxError": "SyntaxError", "SyntaxError": "Exception",
    "RecognitionException": "Exception", "UnicodeDecodeError": "ValueError", "OSError": "Exception",
    "SystemExit": "BaseException", "Exception": "BaseException", "OSError": "Exception", "FileExistsError": "OSError",
}


def exc_is(t, handler):
    while t is not None:
        if t == handler:
            return True
        t = EXC_PARENTS.get(t)
    return False


class Obligation:
    def __init__(self, name, kind, pc, goal, where, func_key, path_id):
        self.name = name
        self.kind = kind
        self.pc = pc
        self.goal = goal
        self.where = where
        self.func_key = func_key
        self.path_id = path_id
        self.trivial = False
        self.parts = None

    def smt2(self):
        s = z3.Solver()
        for c in self.pc:
            s.add(c)
        s.add(z3.Not(self.goal))
        return s.to_smt2()


PY_WS = [(9, 13), (28, 32), (133, 133), (160, 160), (5760, 5760), (8192, 8202), (8232, 8233), (8239, 8239),
         (8287, 8287), (12288, 12288)]


def re_charset(chars):
    return z3.Union(*[z3.Re(c) for c in chars]) if len(chars) > 1 else z3.Re(chars[0])


def re_ws():
    rs = []
    for lo, hi in PY_WS:
        rs.append(z3.Range(chr(lo), chr(hi)) if lo != hi else z3.Re(chr(lo)))
    return z3.Union(*rs)


def z3_replace_all(s, a, b):
    ctx = s.ctx
    return z3.SeqRef(z3.Z3_mk_seq_replace_all(ctx.ref(), s.as_ast(), a.as_ast(), b.as_ast()), ctx)


def conj(xs):
    xs = [x for x in xs if not z3.is_true(x)]
    if not xs:
        return z3.BoolVal(True)
    return z3.And(*xs) if len(xs) > 1 else xs[0]


# uninterpreted / axiomatised helpers shared by code and specs
py_lower = z3.Function("py_lower", StrS, StrS)
py_upper = z3.Function("py_upper", StrS, StrS)
split_len = z3.Function("split_len", StrS, StrS, IntS)
split_at = z3.Function("split_at", StrS, StrS, IntS, StrS)
sorted_arr = z3.Function("sorted_arr", z3.ArraySort(IntS, StrS), IntS, z3.ArraySort(IntS, StrS))
NOWHERE = z3.Const("nowhere", Ref)        # not an object: target of a conditional frame whose condition is false
lowner = z3.Function("lowner", Ref, IntS)     # which owned list field a list object belongs to (ownership discipline)
lkind = z3.Function("lkind", Ref, IntS)       # 0 object, 1 list[str], 2 list[ref], 3 list[int]
re_sub_fn = z3.Function("re_sub", StrS, StrS, StrS)       # re.sub(pattern, "", s)  (A3)
dedent_fn = z3.Function("textwrap_dedent", StrS, StrS)


class Ctx:
    """Evaluation context: which env/heap expressions read, and whether we are in spec mode."""

    def __init__(self, env, heap, spec=False, old=None, result=None, fuel=2, entry=None):
        self.env = env
        self.heap = heap
        self.spec = spec
        self.old = old          # Ctx of the pre-state (spec mode)
        self.result = result
        self.fuel = fuel
        self.entry = entry      # Ctx of the state at loop entry (loop invariants: `entry.x`)


def lkind_of(ety):
    if ety == "?":
        return None
    key = elem_array_key(ety)
    return {"LStr": 1, "LRef": 2, "LInt": 3}[key]


class FunctionVerifier:
    def __init__(self, world, func, recv_class=None, options=None):
        self.world = world                # contracts.World: program + contracts + specs
        self.prog = world.prog
        self.func = func
        self.recv_class = recv_class
        self.contract = world.contract_for(func)
        self.opts = options or {}
        self.obligations = []
        self.covers = []           # (name, pc): path conditions that must NOT be unsatisfiable (vacuity guard)
        self._seen = set()
        self.paths = 0
        self.assumption_notes = set()
        self.max_paths = self.opts.get("max_paths", 4000)
        self.feas_timeout = self.opts.get("feas_timeout_ms", 1000)
        self.label = func.key + (f"[{recv_class}]" if recv_class else "")
        self.replay_len = 0
        self.stat = {"feas": 0, "feas_s": 0.0, "full": 0, "full_s": 0.0}

    # ------------------------------------------------------------ path exploration by decision replay
    def _reset_path_state(self, prefix):
        self.trace = []
        self.prefix = prefix
        self.pc = []
        self.ctr = itertools.count()
        self.path_notes = []
        self._nonneg, self._nonneg_keep = set(), []
        self._soft_ids, self.soft_mode = set(), False
        self._branch_ids, self._proved_ids = set(), set()
        self._fresh_ids, self._entry_ids, self._id_keep = set(), set(), []
        self._owner_tag, self._entry_term_cache, self._binder_cache, self._lkind_tag = {}, {}, {}, {}
        self._revealed = {}
        self._newer_havoc, self._fresh_order = {}, {}

    def run(self):
        """sequential exploration (depth first): flip the last decision that still has an alternative"""
        prefix = []
        while True:
            self._reset_path_state(prefix)
            self.replay_len = 0
            self.paths += 1
            if self.paths > self.max_paths:
                raise VCError(f"{self.label}: more than {self.max_paths} paths")
            try:
                self.run_path()
                self.add_cover()
            except PathEnd as pe:
                if getattr(pe, "cover", False):
                    self.add_cover()
            i = len(self.trace) - 1
            while i >= 0 and not self.trace[i][1]:
                i -= 1
            if i < 0:
                break
            prefix = [list(x) for x in self.trace[:i]] + [[not self.trace[i][0], False]]
        return self.obligations

    def run_one(self, prefix_vals):
        """One path for the given decision prefix (parallel exploration, pargen.py).  Returns the prefixes of the
        alternatives discovered BEYOND the given prefix; obligations met while the prefix is being replayed belong to
        the path that first made those decisions and are not generated again."""
        self._reset_path_state([[bool(v), False] for v in prefix_vals])
        self.replay_len = len(prefix_vals)
        self.paths += 1
        try:
            self.run_path()
            self.add_cover()
        except PathEnd as pe:
            if getattr(pe, "cover", False):
                self.add_cover()
        out = []
        vals = [v for v, _a in self.trace]
        for i in range(len(prefix_vals), len(self.trace)):
            if self.trace[i][1]:
                out.append(vals[:i] + [not vals[i]])
        return out

    def feasible(self, cond):
        """Branch pruning only (never a verdict).  Quantified facts and lambda definitions are left out: that
        weakens the path condition, so a branch may be explored although it is infeasible - harmless."""
        s = z3.Solver()
        s.set("timeout", self.feas_timeout)
        for c in self.pc:
            if not self._has_binder(c):
                s.add(c)
        s.add(cond)
        t0 = time.time()
        r = s.check() != z3.unsat
        self.stat["feas"] += 1
        self.stat["feas_s"] += time.time() - t0
        return r

    def _has_binder(self, e):
        i = e.get_id()
        r = self._binder_cache.get(i)
        if r is None:
            r = False
            todo, seen = [e], set()
            while todo:
                x = todo.pop()
                if x.get_id() in seen:
                    continue
                seen.add(x.get_id())
                if z3.is_quantifier(x):
                    r = True
                    break
                todo.extend(x.children())
            self._binder_cache[i] = r
            self._id_keep.append(e)
        return r

    def add_cover(self):
        if any(z3.is_false(c) for c in self.pc):
            return      # the path ended in a "must be infeasible" obligation (unexpected exception): no cover
        # goals of this function's own obligations are not assumptions: leave them out of the vacuity check
        base = [c for c in self.pc if c.get_id() not in self._proved_ids]
        hard = [c for c in base if c.get_id() not in self._soft_ids]
        nobranch = [c for c in base if c.get_id() not in self._branch_ids]
        self.covers.append((f"{self.label}#cover@d{trace_id([v for v, _a in self.trace])}", base, hard, nobranch))

    def feasible_full(self, cond, timeout=5000):
        s = z3.Solver()
        s.set("timeout", timeout)
        for c in self.pc:
            s.add(c)
        s.add(cond)
        t0 = time.time()
        r = s.check() != z3.unsat
        self.stat["full"] += 1
        self.stat["full_s"] += time.time() - t0
        return r

    def choose(self, cond, exc_branch=None):
        """exc_branch: the truth value of `cond` that leads to an exception (None: ordinary branch).  Exception
        branches are additionally checked against the full path condition (with quantified facts), so that
        branches excluded by a quantified precondition are pruned instead of ending as vacuous paths."""
        cond = z3.simplify(cond)
        if z3.is_true(cond):
            return True
        if z3.is_false(cond):
            return False
        i = len(self.trace)
        if i < len(self.prefix):
            val, alt = self.prefix[i]
        else:
            t_ok = self.feasible(cond)
            f_ok = self.feasible(z3.Not(cond))
            if exc_branch is True and t_ok:
                t_ok = self.feasible_full(cond)
            if exc_branch is False and f_ok:
                f_ok = self.feasible_full(z3.Not(cond))
            if t_ok and f_ok:
                val, alt = True, True
            elif t_ok:
                val, alt = True, False
            elif f_ok:
                val, alt = False, False
            else:
                raise PathEnd()
        self.trace.append([val, alt])
        dec = cond if val else z3.Not(cond)
        self._branch_ids.add(dec.get_id())
        self._id_keep.append(dec)
        self.pc.append(dec)
        return val

    def choose_n(self, n):
        """Non-deterministic choice among n alternatives that are distinguished later by assumptions."""
        for k in range(n - 1):
            b = z3.Bool(f"choice!{next(self.ctr)}")
            if self.choose(b):
                return k
        return n - 1

    def assume(self, cond):
        if z3.is_true(cond):
            return
        i = cond.get_id()
        for c in self.pc:
            if c.get_id() == i:
                return
        if self.soft_mode:
            # assumptions that come from contracts (callee postconditions, loop invariants, lemma conclusions):
            # if only these make a path condition unsatisfiable, the path is *vacuous* (see check_covers)
            self._soft_ids.add(i)
            self._id_keep.append(cond)
        self.pc.append(cond)

    def split_goal(self, g):
        """And(a, b) -> [a, b];  Or(x, And(a, b)) -> [Or(x, a), Or(x, b)]  (one query per conjunct)"""
        if z3.is_and(g):
            out = []
            for c in g.children():
                out.extend(self.split_goal(c))
            return out
        if z3.is_or(g):
            kids = g.children()
            parts = [self.split_goal(c) for c in kids]
            multi = [i for i, p in enumerate(parts) if len(p) > 1]
            if len(multi) == 1:
                i = multi[0]
                return [z3.Or(*(kids[:i] + [c] + kids[i + 1:])) for c in parts[i]]
        if z3.is_implies(g):
            rhs = self.split_goal(g.arg(1))
            if len(rhs) > 1:
                return [z3.Implies(g.arg(0), c) for c in rhs]
        return [g]

    def oblige(self, goal, kind, label, where=""):
        """One obligation per clause.  When the clause is a conjunction (or a guarded conjunction) its conjuncts are
        kept as *parts*: the whole clause is tried first, the parts only if that single query is not discharged."""
        parts = self.split_goal(goal)
        if len(parts) > 1:
            pc_before = list(self.pc)
            n_before = len(self.obligations)
            self.oblige1(goal, kind, label, where)
            if len(self.obligations) > n_before:
                parent = self.obligations[-1]
                if not parent.trivial:
                    parent.parts = []
                    for i, p in enumerate(parts):
                        if z3.is_true(z3.simplify(p)):
                            continue
                        # each part is proved from the path condition as it was before the clause
                        # (not from its sibling parts: they are proved independently)
                        parent.parts.append(Obligation(f"{parent.name}/{i}", kind, pc_before, p, where, self.label,
                                                       self.paths))
            return
        self.oblige1(goal, kind, label, where)

    def oblige1(self, goal, kind, label, where=""):
        goal_s = z3.simplify(goal)
        trivial = z3.is_true(goal_s)
        # the same obligation is met again when a later path replays this prefix of decisions: execution is
        # deterministic, so (label, decisions so far, position) identifies it
        key = (kind, label, tuple(v for v, _a in self.trace), len(self.pc))
        if key not in self._seen and len(self.trace) >= self.replay_len:
            self._seen.add(key)
            name = f"{self.label}#{kind}.{label}@d{trace_id([v for v, _a in self.trace], len(self.pc))}"
            ob = Obligation(name, kind, [] if trivial else list(self.pc), goal, where, self.label, self.paths)
            ob.trivial = trivial
            self.obligations.append(ob)
        if not trivial:
            self._soft_ids.add(goal.get_id())
            self._proved_ids.add(goal.get_id())
            self._id_keep.append(goal)
            self.pc.append(goal)

    def _count_trivial(self, kind, label):
        self.world.trivial_count[self.label] = self.world.trivial_count.get(self.label, 0) + 1

    def fresh(self, ty, name="v"):
        return fresh_of(ty, name, next(self.ctr))

    def fresh_ref_term(self, name="obj"):
        return z3.Const(f"{name}!{next(self.ctr)}", Ref)

    # ------------------------------------------------------------ set-up of one path
    def run_path(self):
        fn = self.func
        node = fn.node
        c = self.contract
        env = {}
        heap = Heap()
        self.heap = heap
        self.env = env
        self.handlers = []
        self._marks = {}
        self._loop_it = None
        self._loop_entry = None
        # parameters
        ptypes = self.world.param_types(fn, self.recv_class)
        for pname, pty in ptypes.items():
            v = fresh_of(pty, "p_" + pname, 0)
            if pname == "self" and self.recv_class is not None:
                v = mk_ref(v.t, self.recv_class, exact=True)
                self.assume(typeof(v.t) == self.world.class_id(self.recv_class))
            env[pname] = v
            if v.kind() in ("ref", "list"):
                self._entry_ids.add(v.t.get_id())
                self._id_keep.append(v.t)
            self.assume_wellformed(v, heap)
        self.assume(birth(NOWHERE) == -1)          # every real object has birth >= 0
        self.pre_env = dict(env)
        self.pre_heap = heap.copy()
        # precondition
        prectx = Ctx(self.pre_env, self.pre_heap, spec=True)
        for i, clause in enumerate(c.requires_clauses()):
            self.assume(self.eval_spec_bool(clause, prectx))
        for extra in c.assume_clauses():
            self.assume(self.eval_spec_bool(extra, prectx))
        self.pc_len_pre = len(self.pc)
        try:
            self.exec_block(node.body)
            ret = NONE
        except ReturnSig as r:
            ret = r.value
        except RaiseSig as r:
            self.check_raise_exit(r)
            return
        self.check_normal_exit(ret)

    def run_virtual_check(self):
        """(virtual requires and typeof(self) == C)  =>  own requires;  ensures/modifies textually equal."""
        vc = self.world.contracts.get("virtual:" + self.func.name)
        c = self.contract
        if vc is None:
            return []
        if [ast.dump(x) for _l, x in vc.ensures] != [ast.dump(x) for _l, x in c.ensures] or vc.modifies != c.modifies:
            raise VCError(f"{self.label}: ensures/modifies differ from virtual:{self.func.name}")
        self.trace, self.prefix, self.pc = [], [], []
        self.ctr = itertools.count()
        self._nonneg, self._nonneg_keep = set(), []
        self._soft_ids, self.soft_mode = set(), False
        self._branch_ids, self._proved_ids = set(), set()
        self._fresh_ids, self._entry_ids, self._id_keep = set(), set(), []
        self._owner_tag, self._entry_term_cache, self._binder_cache, self._lkind_tag = {}, {}, {}, {}
        self._revealed = {}
        self._newer_havoc, self._fresh_order = {}, {}
        self.paths += 1
        heap = Heap()
        self.heap = heap
        cls = self.recv_class or self.func.cls.name
        v = mk_ref(z3.Const("p_self!0", Ref), cls, exact=True)
        self.env = {"self": v}
        self.pre_env, self.pre_heap = dict(self.env), heap
        self.assume(typeof(v.t) == self.world.class_id(cls))
        self.assume_wellformed(v, heap)
        ctx = Ctx(self.env, heap, spec=True)
        for clause in vc.requires_clauses():
            self.assume(self.eval_spec_bool(clause, ctx))
        for i, clause in enumerate(c.requires_clauses()):
            self.oblige(self.eval_spec_bool(clause, ctx), "virtual-pre", str(i), self.prog.loc(self.func.module, self.func.node))
        return self.obligations

    def assume_wellformed(self, v, heap):
        """Type invariants of values that come from outside (T-PY: annotations are respected)."""
        k = v.kind()
        if k == "enum":
            ms = self.prog.classes[v.ty[1]].enum_members.values()
            self.assume(z3.Or(*[v.t == m for m in ms]))
        if k in ("ref", "list"):
            nullable = isinstance(v.ty, tuple) and len(v.ty) > 2
            if nullable:
                self.assume(z3.Or(v.t == NULL, z3.And(birth(v.t) >= 0, birth(v.t) < heap.now)))
                return
            self.assume(z3.And(birth(v.t) >= 0, birth(v.t) < heap.now))
            self.assume(v.t != NULL)
            if k == "ref" and v.ty[1] is not None and not v.exact and v.ty[1] in self.prog.classes:
                self.assume(self.subclass_cond(v.t, v.ty[1]))
            if k == "list":
                self.assume(z3.Select(heap.get("LLen", IntS), v.t) >= 0)
                if lkind_of(v.ty[1]) is not None:
                    self.assume(lkind(v.t) == lkind_of(v.ty[1]))
            else:
                self.assume(lkind(v.t) == 0)

    def subclass_cond(self, t, cname):
        ids = [self.world.class_id(c) for c in self.prog.subclasses(cname)]
        if cname not in self.prog.classes:
            ids = [self.world.class_id(cname)]
        return z3.Or(*[typeof(t) == i for i in ids]) if len(ids) > 1 else typeof(t) == ids[0]

    # ------------------------------------------------------------ exits
    def check_normal_exit(self, ret):
        c = self.contract
        rty = self.world.return_type(self.func)
        post = Ctx(self.env_for_post(), self.heap, spec=True, old=Ctx(self.pre_env, self.pre_heap, spec=True),
                   result=ret)
        self.proving = True
        try:
            for label, clause in c.ensures_clauses():
                if label.startswith("assumed"):
                    # an ASSUMED postcondition: callers may use it, this function is not checked against it
                    # (listed under assumptions in the evidence)
                    self.world.assumed_clauses.add(f"{self.func.key}: ensures_{label.split('.')[0]}")
                    continue
                self.oblige(self.eval_spec_bool(clause, post), "ensures", label,
                            self.prog.loc(self.func.module, self.func.node))
        finally:
            self.proving = False
        self.check_frame()

    def env_for_post(self):
        # parameters keep their entry values in postconditions (Python rebinding of a parameter is local)
        e = dict(self.env)
        e.update(self.pre_env)
        return e

    def check_raise_exit(self, r):
        c = self.contract
        cond_ast = c.raises.get(r.exc_type)
        if cond_ast is None:
            for k in c.raises:
                if exc_is(r.exc_type, k):
                    cond_ast = c.raises[k]
        if cond_ast is None:
            # unexpected exception: the path must be infeasible
            self.oblige(z3.BoolVal(False), "noexc", f"{r.exc_type}:{r.where}", r.where)
            return
        post = Ctx(self.env_for_post(), self.heap, spec=True, old=Ctx(self.pre_env, self.pre_heap, spec=True))
        self.oblige(self.eval_spec_bool(cond_ast, post), "raises", r.exc_type, r.where)

    def check_frame(self):
        """Everything allocated at entry and not in the modifies clause is unchanged (per heap array)."""
        c = self.contract
        mod = self.eval_modifies(c.modifies, Ctx(self.pre_env, self.pre_heap, spec=True), self.cur_class())
        newer = mod.pop("__newer__", None)
        for key, arr in self.heap.arrays.items():
            arr0 = self.pre_heap.arrays.get(key)
            if arr0 is None:
                arr0 = z3.Const(key + "@0", arr.sort())
            if arr.eq(arr0):
                continue
            if isinstance(mod.get(key), str):
                continue
            r = z3.Const(f"frame_r!{key}", Ref)
            allowed = mod.get(key, [])
            hyp = [birth(r) < self.pre_heap.now, r != NOWHERE] + [r != m for m in allowed]
            if newer:
                hyp += [birth(r) < birth(b) for b in newer]
            goal = z3.Implies(conj(hyp), z3.Select(arr, r) == z3.Select(arr0, r))
            self.oblige(goal, "frame", key, self.prog.loc(self.func.module, self.func.node))

    def eval_modifies(self, items, ctx, owner=None):
        """-> {array key: [ref terms] | '*'}.  fields(self) means the fields declared by the class that owns the
        contract (and its bases), not those a subclass adds."""
        out = {}

        def add(key, ref):
            if isinstance(out.get(key), str):
                return
            if isinstance(ref, str) and ref == "*":
                out[key] = "*"
            else:
                out.setdefault(key, []).append(ref)
        for it in items:
            e = ast.parse(it, mode="eval").body
            if isinstance(e, ast.Call) and isinstance(e.func, ast.Name) and e.func.id == "items":
                l = self.eval(e.args[0], ctx)
                if l.kind() != "list":
                    raise VCError(f"modifies items(): not a list: {it}")
                add(len_key(l.ty), l.t)
                add(arr_key(l.ty), l.t)
            elif isinstance(e, ast.Call) and isinstance(e.func, ast.Name) and e.func.id == "fields":
                o = self.eval(e.args[0], ctx)
                ocls = o.ty[1]
                if owner is not None and isinstance(e.args[0], ast.Name) and e.args[0].id == "self":
                    ocls = owner
                for (fkey, fty) in self.world.all_fields_of(ocls):
                    add(fkey, o.t)
                    if isinstance(fty, tuple) and fty[0] == "opt":
                        add(fkey + "?", o.t)
            elif isinstance(e, ast.Call) and isinstance(e.func, ast.Name) and e.func.id == "every":
                # every("Class.field"): the whole field array may change (the contract must frame it itself)
                fkey = "f:" + e.args[0].value
                add(fkey, "*")
                add(fkey + "?", "*")
            elif isinstance(e, ast.Call) and isinstance(e.func, ast.Name) and e.func.id == "newer_than":
                # everything allocated after the given object may change (and nothing older): a quantified frame
                o = self.eval(e.args[0], ctx)
                out.setdefault("__newer__", []).append(o.t)
            elif isinstance(e, ast.Call) and isinstance(e.func, ast.Name) and e.func.id == "every_list":
                add("LLen", "*")
                add(e.args[0].value, "*")
            elif isinstance(e, ast.IfExp) and isinstance(e.orelse, ast.Constant) and e.orelse.value is None:
                # conditional frame:  <target> if <cond> else None
                c = self.eval_spec_bool(e.test, ctx)
                inner = e.body
                if isinstance(inner, ast.Call) and isinstance(inner.func, ast.Name) and inner.func.id == "items":
                    l = self.eval(inner.args[0], ctx)
                    rt = z3.If(c, l.t, NOWHERE)
                    add(len_key(l.ty), rt)
                    add(arr_key(l.ty), rt)
                else:
                    o = self.eval(inner.value, ctx)
                    fkey, fty = self.world.field_key(o.ty[1], inner.attr, self.cur_class())
                    rt = z3.If(c, o.t, NOWHERE)
                    add(fkey, rt)
                    if isinstance(fty, tuple) and fty[0] == "opt":
                        add(fkey + "?", rt)
            elif isinstance(e, ast.Attribute):
                o = self.eval(e.value, ctx)
                fkey, fty = self.world.field_key(o.ty[1], e.attr, self.cur_class())
                add(fkey, o.t)
                if isinstance(fty, tuple) and fty[0] == "opt":
                    add(fkey + "?", o.t)
            else:
                raise VCError(f"bad modifies item {it!r}")
        return out

    def cur_class(self):
        return self.func.cls.name if self.func.cls is not None else None

    # ------------------------------------------------------------ statements
    def exec_block(self, stmts):
        for st in stmts:
            self.exec_stmt(st)

    def is_logging_call(self, e):
        if not isinstance(e, ast.Call) or not isinstance(e.func, ast.Attribute):
            return False
        base = e.func.value
        if isinstance(base, ast.Name) and base.id == "logger":
            return True
        if isinstance(base, ast.Attribute) and base.attr == "logger":
            return True
        if isinstance(base, ast.Attribute) and isinstance(base.value, ast.Name) and base.value.id == "logging":
            return True
        return False

    def exec_stmt(self, st):
        ctx = Ctx(self.env, self.heap)
        if isinstance(st, ast.Expr):
            if isinstance(st.value, ast.Constant):
                return                      # docstring
            if self.is_logging_call(st.value):
                self.world.dropped.add("logging call")
                return
            self.eval(st.value, ctx)
        elif isinstance(st, ast.Assign):
            val = self.eval(st.value, ctx)
            for tgt in st.targets:
                self.assign(tgt, val)
        elif isinstance(st, ast.AnnAssign):
            if st.value is None:
                return
            val = self.eval(st.value, ctx)
            self.assign(st.target, val)
        elif isinstance(st, ast.AugAssign):
            cur = self.eval(st.target, ctx)
            rhs = self.eval(st.value, ctx)
            val = self.binop(st.op, cur, rhs, ctx, st)
            self.assign(st.target, val)
        elif isinstance(st, ast.If):
            c = self.truth(self.eval(st.test, ctx))
            if self.choose(c):
                self.exec_block(st.body)
            else:
                self.exec_block(st.orelse)
        elif isinstance(st, ast.For):
            self.exec_for(st)
        elif isinstance(st, ast.While):
            raise VCError(f"while loop not supported at {self.where(st)}")
        elif isinstance(st, ast.Return):
            raise ReturnSig(self.eval(st.value, ctx) if st.value is not None else NONE)
        elif isinstance(st, ast.Raise):
            raise RaiseSig(self.raised_type(st, ctx), self.where(st))
        elif isinstance(st, ast.Try):
            self.exec_try(st)
        elif isinstance(st, ast.Pass):
            return
        elif isinstance(st, ast.Break):
            raise BreakSig()
        elif isinstance(st, ast.Continue):
            raise ContinueSig()
        elif isinstance(st, ast.Global):
            self.world.dropped.add("global statement")
        elif isinstance(st, ast.Delete):
            self.exec_delete(st)
        elif isinstance(st, ast.With):
            self.exec_with(st)
        else:
            raise VCError(f"statement {type(st).__name__} not supported at {self.where(st)}")

    def where(self, node):
        return self.prog.loc(self.func.module, node)

    def raised_type(self, st, ctx):
        e = st.exc
        if e is None:
            return self.handlers[-1] if self.handlers else "Exception"
        if isinstance(e, ast.Call):
            f = e.func
            name = f.id if isinstance(f, ast.Name) else f.attr
            # evaluate nothing: messages are not modelled (they only feed log/exception text)
            return name
        if isinstance(e, ast.Name):
            v = self.env.get(e.id)
            if v is not None and v.kind() == "exc":
                return v.t
            if v is not None and v.kind() == "ref" and v.ty[1] is not None:
                return v.ty[1]          # raising an exception object held in a variable: its class
            return e.id
        raise VCError(f"raise form not supported at {self.where(st)}")

    def exec_try(self, st):
        if st.finalbody:
            raise VCError("try/finally not supported")
        saved_env, saved_heap = None, None
        try:
            self.exec_block(st.body)
        except RaiseSig as r:
            for h in st.handlers:
                hname = None
                if h.type is None:
                    hname = "BaseException"
                elif isinstance(h.type, ast.Name):
                    hname = h.type.id
                else:
                    raise VCError("except form not supported")
                if exc_is(r.exc_type, hname):
                    if h.name:
                        self.env[h.name] = V("exc", r.exc_type)
                    self.handlers.append(r.exc_type)
                    try:
                        self.exec_block(h.body)
                    finally:
                        self.handlers.pop()
                    return
            raise
        else:
            self.exec_block(st.orelse)

    def exec_delete(self, st):
        for tgt in st.targets:
            if isinstance(tgt, ast.Subscript) and isinstance(tgt.slice, ast.Slice):
                ctx = Ctx(self.env, self.heap)
                l = self.eval(tgt.value, ctx)
                sl = tgt.slice
                if l.kind() == "list" and sl.upper is None and sl.step is None and sl.lower is not None:
                    lo = self.eval(sl.lower, ctx)
                    n = self.list_len(l, self.heap)
                    lo_t = self.norm_index_clamp(lo.t, n)
                    self.set_list_len(l, z3.If(lo_t < n, lo_t, n))
                    continue
            raise VCError(f"del form not supported at {self.where(st)}")

    def exec_with(self, st):
        # with open(path, 'w') as f: f.write(text)   -> ghost file-system write
        if len(st.items) == 1 and isinstance(st.items[0].context_expr, ast.Call):
            call = st.items[0].context_expr
            if isinstance(call.func, ast.Name) and call.func.id == "open":
                ctx = Ctx(self.env, self.heap)
                path = self.eval(call.args[0], ctx)
                var = st.items[0].optional_vars.id
                self.env[var] = V("file", path.t)
                self.exec_block(st.body)
                return
        raise VCError(f"with form not supported at {self.where(st)}")

    # ------------------------------------------------------------ assignment
    def assign(self, tgt, val):
        if isinstance(tgt, ast.Name):
            if self.contract is not None and tgt.id in self.contract.types and val.kind() not in ("tuple",):
                val = self.coerce(val, parse_type(self.contract.types[tgt.id]), tgt)
            self.env[tgt.id] = val
        elif isinstance(tgt, ast.Attribute):
            ctx = Ctx(self.env, self.heap)
            obj = self.eval(tgt.value, ctx)
            self.store_field(obj, tgt.attr, val, tgt)
        elif isinstance(tgt, ast.Subscript):
            ctx = Ctx(self.env, self.heap)
            obj = self.eval(tgt.value, ctx)
            if obj.kind() != "list":
                raise VCError(f"subscript store on {obj.ty} at {self.where(tgt)}")
            idx = self.eval(tgt.slice, ctx)
            n = self.list_len(obj, self.heap)
            i = self.checked_index(idx.t, n, tgt)
            self.list_store(obj, i, val)
        elif isinstance(tgt, (ast.Tuple, ast.List)):
            tf = self.world.consts.get("TUPLE_FIELDS", {})
            if val.kind() == "ref" and val.ty[1] in tf:
                # an external value that is unpacked like a tuple (os.walk's (root, dirs, files)): ghost fields in order
                val = V("tuple", [self.load_field(val, f, self.heap, tgt) for f in tf[val.ty[1]]])
            if val.kind() != "tuple" or len(val.t) != len(tgt.elts):
                raise VCError(f"tuple assignment mismatch at {self.where(tgt)}")
            for t, v in zip(tgt.elts, val.t):
                self.assign(t, v)
        else:
            raise VCError(f"assignment target not supported at {self.where(tgt)}")

    def narrow_for_field(self, obj, attr, ctx, node):
        """The static class of obj does not declare `attr` but some of its subclasses do (e.g. is_macro of the
        pending declaration): split on the dynamic class.  In code an object of another class has no such
        attribute: AttributeError on a read; a write would silently create the attribute, which is outside the subset."""
        cname = obj.ty[1]
        if cname not in self.prog.classes:
            return None
        groups = {}
        for c in self.prog.subclasses(cname):
            d = self.world.declared_field(c, attr)
            if d is not None and self.world.is_concrete(c):
                groups.setdefault(d[0], []).append(c)
        if not groups:
            return None
        glist = sorted(groups.items())
        if ctx.spec:
            raise VCError(f"attribute {attr} on {cname} in a spec: use cast(...) at {self.where(node)}")
        for decl, cs in glist:
            cond = z3.Or(*[typeof(obj.t) == self.world.class_id(c) for c in cs])
            if self.choose(cond):
                return mk_ref(obj.t, decl if len(cs) > 1 else cs[0])
        raise RaiseSig("AttributeError", self.where(node))

    def store_field(self, obj, attr, val, node):
        if obj.kind() != "ref":
            raise VCError(f"attribute store on {obj.ty} at {self.where(node)}")
        cname = obj.ty[1]
        if cname in self.prog.classes and not self.world.has_field(cname, attr, self.cur_class()) and \
                self.prog.find_setter(cname, attr) is None:
            narrowed = self.narrow_for_field(obj, attr, Ctx(self.env, self.heap), node)
            if narrowed is not None:
                obj = narrowed
                cname = obj.ty[1]
        setter = self.prog.find_setter(cname, attr) if cname in self.prog.classes else None
        if setter is not None and not (self.func is setter):
            self.call_function(setter, [obj, val], {}, node, key_suffix=".setter")
            return
        fkey, fty = self.world.field_key(cname, attr, self.cur_class())
        val = self.coerce(val, fty, node)
        if isinstance(fty, tuple) and fty[0] == "opt":
            a = self.heap.get(fkey, sort_of(fty))
            an = self.heap.get(fkey + "?", BoolS)
            self.heap.set(fkey, z3.Store(a, obj.t, val.t))
            self.heap.set(fkey + "?", z3.Store(an, obj.t, val.aux))
        else:
            a = self.heap.get(fkey, sort_of(fty))
            self.heap.set(fkey, z3.Store(a, obj.t, val.t))

    def coerce(self, val, ty, node=None, spec=False):
        """Convert a value to the representation of declared type ty (None -> optional / null ...)."""
        if ty is None or val.ty == ty:
            return val
        k = ty if isinstance(ty, str) else ty[0]
        vk = val.kind()
        if k == "opt" and vk == "dyn" and ty[1] == "str":
            if not spec:
                self.oblige(z3.Or(Dyn.is_dstr(val.t), val.t == Dyn.dnone), "type", "dyn-is-str-or-None",
                            self.where(node) if node else "")
            return mk_opt(val.t == Dyn.dnone, Dyn.sval(val.t), "str")
        if k == "opt":
            if vk == "none":
                return mk_opt(z3.BoolVal(True), self.default_term(ty[1]), ty[1])
            if vk == "opt":
                return val
            if val.ty == ty[1]:
                return mk_opt(z3.BoolVal(False), val.t, ty[1])
        if k == "list" and vk == "tuple" and not spec:
            # a tuple of actuals passed where a list / *args is expected
            ety = ty[1]
            arr = z3.K(IntS, self.default_term(ety))
            for i, x in enumerate(val.t):
                arr = z3.Store(arr, i, self.coerce(x, ety, node).t)
            return self.new_list(ety, z3.IntVal(len(val.t)), arr, "args")
        if k in ("ref", "list"):
            if vk == "none":
                return V(ty, NULL)
            if vk in ("ref", "list"):
                if k == "list" and vk == "list":
                    if val.ty[1] != ty[1] and not (isinstance(val.ty[1], tuple) and isinstance(ty[1], tuple)):
                        if val.ty[1] == "?":
                            if lkind_of(ty[1]) is not None:
                                self.assume(lkind(val.t) == lkind_of(ty[1]))
                            return V(ty, val.t)
                        raise VCError(f"list element type mismatch {val.ty} vs {ty} at {self.where(node) if node else ''}")
                    return V(ty, val.t)
                if k == "ref" and vk == "ref":
                    # keep the more precise static class
                    if val.ty[1] is not None and (ty[1] is None or self.prog.is_subclass(val.ty[1], ty[1])):
                        return val
                    return V(ty, val.t, exact=False)
                if k == "ref" and ty[1] is None:
                    return V(ty, val.t)
                if k == "list" and vk == "ref" and val.ty[1] is None:
                    return V(ty, val.t)
        if k == "str" and vk == "opt" and val.ty[1] == "str":
            # a declared str that may hold None at run time is an error unless proved not None
            if not spec:
                self.oblige(z3.Not(val.aux), "type", "str-not-None", self.where(node) if node else "")
            return mk_str(val.t)
        if k == "dyn":
            if vk == "str":
                return V("dyn", Dyn.dstr(val.t))
            if vk == "enum":
                return V("dyn", Dyn.denum(val.t))
            if vk == "none":
                return V("dyn", Dyn.dnone)
            if vk == "int":
                return V("dyn", Dyn.dint(val.t))
            if vk == "opt" and val.ty[1] == "str":
                return V("dyn", z3.If(val.aux, Dyn.dnone, Dyn.dstr(val.t)))
        if vk == "dyn":
            if k == "str":
                if not spec:
                    self.oblige(Dyn.is_dstr(val.t), "type", "dyn-is-str", self.where(node) if node else "")
                return mk_str(Dyn.sval(val.t))
        if k == "int" and vk == "bool":
            return mk_int(z3.If(val.t, 1, 0))
        if k == "enum" and vk == "enum":
            return val
        if k == "str" and vk == "int":
            raise VCError(f"int passed where str expected at {self.where(node) if node else ''}")
        raise VCError(f"cannot coerce {val.ty} to {ty} at {self.where(node) if node else ''}")

    def default_term(self, ty):
        if ty == "str":
            return z3.StringVal("")
        if ty == "int":
            return z3.IntVal(0)
        if ty == "bool":
            return z3.BoolVal(False)
        return NULL

    # ------------------------------------------------------------ heap access
    def load_field(self, obj, attr, heap, node=None):
        pinned = obj.aux if isinstance(obj.aux, Heap) else None
        if pinned is not None:
            heap = pinned
        v = self._load_field(obj, attr, heap, node)
        if pinned is not None and v.kind() in ("ref", "list"):
            v = V(v.ty, v.t, aux=pinned, exact=v.exact)
        return v

    def _load_field(self, obj, attr, heap, node=None):
        cname = obj.ty[1]
        fkey, fty = self.world.field_key(cname, attr, self.cur_class())
        a = heap.get(fkey, sort_of(fty))
        t = self.sel(a, obj.t, fkey)
        k = fty if isinstance(fty, str) else fty[0]
        if k == "opt":
            an = heap.get(fkey + "?", BoolS)
            return mk_opt(self.sel(an, obj.t, fkey + "?"), t, fty[1])
        v = V(fty, t)
        if k == "enum":
            ms = self.prog.classes[fty[1]].enum_members.values()
            self.assume(z3.Or(*[t == m for m in ms]))
        if k in ("ref", "list"):
            nullable = self.world.field_nullable(fkey)
            # the entry heap is closed: what it references existed at entry
            facts = [birth(t) >= 0, birth(t) < (self.pre_heap.now if self.is_entry_term(t) else heap.now)]
            if k == "ref" and fty[1] in self.prog.classes:
                facts.append(self.subclass_cond(t, fty[1]))
            if k == "list":
                facts.append(z3.Select(heap.get("LLen", IntS), t) >= 0)
                if lkind_of(fty[1]) is not None:
                    facts.append(lkind(t) == lkind_of(fty[1]))
                    self._lkind_tag[t.get_id()] = lkind_of(fty[1])
                    self._id_keep.append(t)
                if fkey[2:] in self.world.owned:
                    # ownership discipline (assumption, listed in evidence): the list held in this field is not
                    # the list held in any other owned field
                    facts.append(lowner(t) == self.world.owned.index(fkey[2:]) + 1)
                    self.world.assumed_ownership.add(fkey[2:])
                    self._owner_tag[t.get_id()] = self.world.owned.index(fkey[2:]) + 1
                    self._id_keep.append(t)
            else:
                facts.append(lkind(t) == 0)
            f = conj(facts)
            self.assume(z3.Or(t == NULL, f) if nullable else z3.And(t != NULL, f))
        return v

    def list_len(self, l, heap):
        if isinstance(l.aux, Heap):
            heap = l.aux
        n = self.sel(heap.get(len_key(l.ty), IntS), l.t, len_key(l.ty))
        if z3.is_expr(n):
            self.mark_nonneg(n)        # lengths of allocated lists are >= 0 (assumed wherever a list is loaded/created)
        return n

    def set_list_len(self, l, n):
        a = self.heap.get(len_key(l.ty), IntS)
        self.heap.set(len_key(l.ty), z3.Store(a, l.t, n))

    def list_arr(self, l, heap):
        if isinstance(l.aux, Heap):
            heap = l.aux
        ety = l.ty[1]
        key = arr_key(l.ty)
        return z3.simplify(self.sel(heap.get(key, z3.ArraySort(IntS, sort_of(ety))), l.t, key))

    def set_list_arr(self, l, arr):
        ety = l.ty[1]
        key = arr_key(l.ty)
        a = self.heap.get(key, z3.ArraySort(IntS, sort_of(ety)))
        self.heap.set(key, z3.Store(a, l.t, arr))

    def list_get(self, l, i, heap, assume_wf=True):
        v = self._list_get(l, i, heap, assume_wf)
        if isinstance(l.aux, Heap) and v.kind() in ("ref", "list"):
            v = V(v.ty, v.t, aux=l.aux, exact=v.exact)
        return v

    def _list_get(self, l, i, heap, assume_wf=True):
        if isinstance(l.aux, Heap):
            heap = l.aux
        ety = l.ty[1]
        t = z3.Select(self.list_arr(l, heap), i)
        v = V(ety, t)
        k = v.kind()
        if assume_wf and k in ("ref", "list"):
            n = self.list_len(l, heap)
            facts = [birth(t) >= 0, birth(t) < (self.pre_heap.now if self.is_entry_term(t) else heap.now)]
            nullable_elem = isinstance(ety, tuple) and len(ety) > 2
            if k == "ref" and ety[1] in self.prog.classes:
                facts.append(self.subclass_cond(t, ety[1]))
            if k == "list":
                facts.append(z3.Select(heap.get("LLen", IntS), t) >= 0)
            f = conj(facts)
            f = z3.Or(t == NULL, f) if nullable_elem else z3.And(t != NULL, f)
            self.assume(z3.Implies(z3.And(i >= 0, i < n), f))
        return v

    def list_store(self, l, i, val):
        val = self.coerce(val, l.ty[1])
        self.set_list_arr(l, z3.Store(self.list_arr(l, self.heap), i, val.t))

    def new_list(self, ety, n, arr, name="list"):
        """Allocation 'reveals' the slot of the fresh reference instead of storing into the heap arrays:
        slots of unallocated references are unconstrained (every assumption about heap arrays is about
        allocated references), so assuming their contents is equivalent to initialising them and keeps
        the array terms - and with them every heap-dependent spec term - unchanged."""
        r = self.alloc(name)
        l = mk_list(r, ety)
        if lkind_of(ety) is not None:
            self.assume(lkind(r) == lkind_of(ety))
            self._lkind_tag[r.get_id()] = lkind_of(ety)
        self.reveal("LLen", IntS, r, z3.simplify(n) if z3.is_expr(n) else z3.IntVal(n))
        if arr is not None and ety != "?":
            key = elem_array_key(ety)
            self.reveal(key, z3.ArraySort(IntS, sort_of(ety)), r, arr)
        return l

    def alloc(self, name="obj", cls=None):
        r = self.fresh_ref_term(name)
        self._fresh_ids.add(r.get_id())
        self._fresh_order[r.get_id()] = len(self._fresh_order)
        self._id_keep.append(r)
        self.assume(z3.And(birth(r) == self.heap.now, birth(r) >= 0))
        self.assume(r != NULL)
        nn = z3.Int(f"now!{next(self.ctr)}")
        self.assume(nn == self.heap.now + 1)
        self.heap.now = nn
        if cls is not None:
            self.assume(typeof(r) == self.world.class_id(cls))
            self.assume(lkind(r) == 0)
        return r

    # ---- term hygiene: keep index arithmetic and heap reads small
    def mark_nonneg(self, t):
        self._nonneg.add(t.get_id())
        self._nonneg_keep.append(t)
        ts = z3.simplify(t)
        self._nonneg.add(ts.get_id())
        self._nonneg_keep.append(ts)

    def is_nonneg(self, t):
        if t.get_id() in self._nonneg:
            return True
        t = z3.simplify(t)
        if z3.is_int_value(t):
            return t.as_long() >= 0
        if t.get_id() in self._nonneg:
            return True
        if z3.is_app(t):
            k = t.decl().kind()
            if k == z3.Z3_OP_SEQ_LENGTH:
                return True
            if k == z3.Z3_OP_ADD:
                return all(self.is_nonneg(c) for c in t.children())
            if k == z3.Z3_OP_ITE:
                return self.is_nonneg(t.arg(1)) and self.is_nonneg(t.arg(2))
        return False

    def norm_index(self, i, n):
        """Python's negative-index rule; skipped when the index is syntactically known to be >= 0"""
        if self.is_nonneg(i):
            return z3.simplify(i)
        return z3.simplify(z3.If(i < 0, i + n, i))

    def known_distinct(self, a, b):
        """fresh allocations of this path are distinct from each other and from the function's parameters"""
        ia, ib = a.get_id(), b.get_id()
        if ia == ib:
            return False
        fa, fb = ia in self._fresh_ids, ib in self._fresh_ids
        if fa and fb:
            return True
        if fa and (ib in self._entry_ids or self.is_entry_term(b)):
            return True
        if fb and (ia in self._entry_ids or self.is_entry_term(a)):
            return True
        ta, tb = self._owner_tag.get(ia), self._owner_tag.get(ib)
        if ta is not None and tb is not None and ta != tb:
            return True          # lists held in different owned fields (ownership discipline)
        ka, kb = self._lkind_tag.get(ia), self._lkind_tag.get(ib)
        if ka is not None and kb is not None and ka != kb:
            return True          # a list of str is not a list of objects is not an object
        return False

    def is_entry_term(self, t):
        """t is built only from the entry heap and the parameters: it denotes an object that existed at entry"""
        i = t.get_id()
        r = self._entry_term_cache.get(i)
        if r is not None:
            return r
        ok = True
        todo = [t]
        seen = set()
        while todo and ok:
            x = todo.pop()
            if x.get_id() in seen:
                continue
            seen.add(x.get_id())
            if z3.is_app(x):
                if x.num_args() == 0 and x.decl().kind() == z3.Z3_OP_UNINTERPRETED:
                    n = x.decl().name()
                    if not (n.endswith("@0") or n.startswith("p_") and n.endswith("!0") or n in ("null", "WORLD") or
                            n.startswith("classattr:") or n.startswith("default:")):
                        ok = False
                todo.extend(x.children())
            else:
                ok = False
        if t.sort() != Ref:
            ok = False
        self._entry_term_cache[i] = ok
        self._id_keep.append(t)
        return ok

    def sel(self, arr, r, key=None):
        """Select(arr, r) with stores at provably different references peeled off; a slot revealed at allocation
        (and not written since) is returned as the very term it was revealed with"""
        if z3.is_app(arr) and arr.decl().kind() == z3.Z3_OP_ITE:
            a, b = self.sel(arr.arg(1), r, key), self.sel(arr.arg(2), r, key)
            return a if a.eq(b) else z3.If(arr.arg(0), a, b)
        nh = self._newer_havoc.get(arr.get_id())
        if nh is not None and self.older_than(r, nh[1]):
            # the array was havocked by a `newer_than(b)` frame and r is provably older than b: unchanged slot
            return self.sel(nh[0], r, key)
        while z3.is_app(arr) and arr.decl().kind() == z3.Z3_OP_STORE:
            idx = arr.arg(1)
            if idx.get_id() == r.get_id():
                return arr.arg(2)
            if self.known_distinct(idx, r):
                arr = arr.arg(0)
            else:
                return z3.Select(arr, r)
        if key is not None:
            v = self._revealed.get((key, r.get_id()))
            if v is not None and v[0] == arr.get_id():
                return v[1]
        nh = self._newer_havoc.get(arr.get_id())
        if nh is not None and self.older_than(r, nh[1]):
            return self.sel(nh[0], r, key)
        if z3.is_app(arr) and arr.decl().kind() == z3.Z3_OP_ITE:
            return self.sel(arr, r, key)
        return z3.Select(arr, r)

    def older_than(self, r, bound):
        ib = bound.get_id()
        if ib not in self._fresh_order:
            return False
        ir = r.get_id()
        if ir in self._fresh_order:
            return self._fresh_order[ir] < self._fresh_order[ib]
        return ir in self._entry_ids or self.is_entry_term(r)

    def reveal(self, key, sort, r, value):
        """fresh reference r: its slot in heap array `key` holds `value` (see new_list)"""
        arr = self.heap.get(key, sort)
        self.assume(z3.Select(arr, r) == value)
        base = arr
        while z3.is_app(base) and base.decl().kind() == z3.Z3_OP_STORE:
            base = base.arg(0)
        self._revealed[(key, r.get_id())] = (base.get_id(), value)
        self._id_keep.append(base)
        self._id_keep.append(value)

    def checked_index(self, i, n, node):
        """Python index semantics on a sequence of length n; IndexError when out of range."""
        i = z3.simplify(i)
        ok = (i < n) if self.is_nonneg(i) else z3.And(i >= -n, i < n)
        if not self.choose(ok, exc_branch=False):
            raise RaiseSig("IndexError", self.where(node))
        return self.norm_index(i, n)

    def norm_index_clamp(self, i, n):
        """slice bound normalisation"""
        i = z3.simplify(i)
        if self.is_nonneg(i):
            return z3.simplify(z3.If(i > n, n, i))
        return z3.simplify(z3.If(i < 0, z3.If(i + n < 0, z3.IntVal(0), i + n), z3.If(i > n, n, i)))

    # ------------------------------------------------------------ loops
    def loop_ordinal(self, node):
        return self.world.loop_ordinals(self.func)[id(node)]

    def exec_for(self, st):
        ctx = Ctx(self.env, self.heap)
        ordinal = self.loop_ordinal(st)
        inv = self.contract.loops.get(ordinal)
        it = st.iter
        # --- what is iterated
        mode = None
        if isinstance(it, ast.Call) and isinstance(it.func, ast.Name) and it.func.id == "range":
            args = [self.eval(a, ctx) for a in it.args]
            if len(args) == 1:
                start, stop = z3.IntVal(0), args[0].t
            elif len(args) == 2:
                start, stop = args[0].t, args[1].t
            else:
                raise VCError("range with step not supported")
            count = z3.If(stop > start, stop - start, z3.IntVal(0))
            mode = ("range", start, count)
        elif isinstance(it, ast.Call) and isinstance(it.func, ast.Name) and it.func.id == "enumerate":
            seq = self.eval(it.args[0], ctx)
            mode = ("enum", seq)
        else:
            if isinstance(it, ast.Subscript) and isinstance(it.slice, ast.Slice):
                # iterating a slice: the temporary list is only read, use it as a value
                seq = self.eval(it, Ctx(self.env, self.heap, spec=True))
            else:
                seq = self.eval(it, ctx)
            if seq.kind() == "extiter":
                mode = ("ext", seq)
            else:
                mode = ("seq", seq)
        if mode[0] in ("seq", "enum"):
            seq = mode[1]
            if seq.kind() not in ("list", "str", "listval"):
                raise VCError(f"cannot iterate over {seq.ty} at {self.where(st)}")
        if inv is None:
            raise VCError(f"{self.label}: loop {ordinal} at {self.where(st)} has no invariant in its contract")
        # --- invariant on entry
        k0 = z3.IntVal(0)
        n_pc_before = len(self.pc)
        saved_entry = getattr(self, "_loop_entry", None)
        saved_it = getattr(self, "_loop_it", None)
        self._loop_entry = (dict(self.env), self.heap.copy())
        self._loop_it = mode[1] if mode[0] in ("seq", "enum") else None
        self.check_inv(inv, k0, "init", st, mode)
        # --- havoc
        assigned = self.world.assigned_names(st)
        pre_loop_env = dict(self.env)
        pre_loop_heap = self.heap.copy()
        for name in assigned:
            if name in self.env and self.env[name].kind() not in ("tuple", "exc", "file", "callable"):
                self.env[name] = self.fresh(self.env[name].ty, "h_" + name)
                self.assume_wellformed_local(self.env[name])
        self.havoc_heap(inv.modifies if inv.modifies is not None else self.contract.modifies, pre_loop_env,
                        pre_loop_heap, self.cur_class())
        nn = z3.Int(f"now!{next(self.ctr)}")
        self.assume(nn >= self.heap.now)
        self.heap.now = nn
        k = z3.Int(f"k!{next(self.ctr)}")
        self.assume(k >= 0)
        self.mark_nonneg(k)
        self.assume_inv(inv, k, st, mode)
        # --- continue or exit?
        if mode[0] == "range":
            more = k < mode[2]
        elif mode[0] == "ext":
            more = z3.Bool(f"ext_more!{next(self.ctr)}")
        else:
            seq = mode[1]
            n = (self.list_len(seq, self.heap) if seq.kind() == "list" else
                 seq.t[0] if seq.kind() == "listval" else z3.Length(seq.t))
            more = k < n
        if self.choose(more):
            if inv.lean:
                self.pc = [c for c in self.pc[:n_pc_before] if not self._has_binder(c)] + self.pc[n_pc_before:]
            # bind the loop variable(s)
            if mode[0] == "range":
                self.assign(st.target, mk_int(mode[1] + k))
            elif mode[0] == "seq":
                self.assign(st.target, self.seq_item(mode[1], k))
            elif mode[0] == "enum":
                self.assign(st.target, V("tuple", [mk_int(k), self.seq_item(mode[1], k)]))
            else:
                self.assign(st.target, self.world.ext_next(mode[1], k, st, self))
            self._marks[f"iter{ordinal}"] = (dict(self.env), self.heap.copy())
            try:
                self.exec_block(st.body)
            except ContinueSig:
                pass
            except BreakSig:
                self.check_step(inv, k, st, mode, True)
                self._loop_entry = saved_entry
                self._loop_it = saved_it
                self._marks.pop(f"iter{ordinal}", None)
                return            # leaves the loop, skips else
            self.check_step(inv, k, st, mode, False)
            self.check_inv(inv, k + 1, "preserved", st, mode)
            pe = PathEnd()
            pe.cover = True
            raise pe
        else:
            if mode[0] == "range":
                self.assume(k == mode[2])
            elif mode[0] != "ext":
                self.assume(k == n)
            self.env["_k_final_%d" % ordinal] = mk_int(k)
            self._loop_entry = saved_entry
            self._loop_it = saved_it
            self.exec_block(st.orelse)

    def assume_wellformed_local(self, v):
        if v.kind() in ("ref", "list"):
            self.assume(z3.Or(v.t == NULL, birth(v.t) < self.heap.now))
            if v.kind() == "list":
                self.assume(z3.Select(self.heap.get("LLen", IntS), v.t) >= 0)

    def seq_item(self, seq, k):
        if seq.kind() == "list":
            return self.list_get(seq, k, self.heap)
        if seq.kind() == "listval":
            v = V(seq.ty[1], z3.simplify(z3.Select(seq.t[1], k)))
            if v.kind() in ("ref", "list"):
                self.assume(z3.And(v.t != NULL, birth(v.t) < self.heap.now))
            return v
        return mk_str(z3.SubString(seq.t, k, 1))

    def check_step(self, inv, k, st, mode, broke):
        if not inv.step_nodes:
            return
        ctx = self.inv_ctx(k, mode)
        ctx.env["_broke"] = mk_bool(broke)
        self.proving = True
        try:
            for label, clause in inv.step_nodes:
                self.oblige(self.eval_spec_bool(clause, ctx), f"step{inv.ordinal}", label, self.where(st))
        finally:
            self.proving = False

    def inv_ctx(self, k, mode):
        env = dict(self.env)
        env["_k"] = mk_int(k)
        if getattr(self, "_loop_it", None) is not None:
            env["_it"] = self._loop_it
        ent = getattr(self, "_loop_entry", None)
        return Ctx(env, self.heap, spec=True, old=Ctx(self.pre_env, self.pre_heap, spec=True),
                   entry=Ctx(ent[0], ent[1], spec=True) if ent else None)

    def check_inv(self, inv, k, phase, st, mode):
        ctx = self.inv_ctx(k, mode)
        self.proving = True
        try:
            for label, clause in inv.clauses():
                self.oblige(self.eval_spec_bool(clause, ctx), f"inv{inv.ordinal}-{phase}", label, self.where(st))
        finally:
            self.proving = False

    def assume_inv(self, inv, k, st, mode):
        ctx = self.inv_ctx(k, mode)
        self.soft_mode = True
        try:
            for label, clause in inv.clauses():
                self.assume(self.eval_spec_bool(clause, ctx))
        finally:
            self.soft_mode = False

    def havoc_heap(self, modifies, env, heap, owner=None):
        mod = self.eval_modifies(modifies, Ctx(env, heap, spec=True), owner)
        newer = mod.pop("__newer__", None)
        if newer:
            bound = newer[0]
            for key in list(self.heap.arrays):
                old = self.heap.arrays[key]
                fresh_arr = z3.Const(f"{key}!{next(self.ctr)}", old.sort())
                r = z3.Const(f"fr!{next(self.ctr)}", Ref)
                self.assume(z3.ForAll([r], z3.Implies(birth(r) < birth(bound),
                                                      z3.Select(fresh_arr, r) == z3.Select(old, r)),
                                      patterns=[z3.Select(fresh_arr, r)]))
                self.heap.set(key, fresh_arr)
                self._newer_havoc[fresh_arr.get_id()] = (old, bound)
                self._id_keep.append(fresh_arr)
        for key, refs in mod.items():
            arr = self.heap.arrays.get(key)
            if arr is None:
                continue_sort = None
            if isinstance(refs, str) and refs == "*":
                old = self.heap.arrays.get(key)
                if old is None:
                    continue
                self.heap.set(key, z3.Const(f"{key}!{next(self.ctr)}", old.sort()))
                continue
            for r in refs:
                old = self.heap.arrays.get(key)
                if old is None:
                    # array not touched so far: create it so that the havoc is visible
                    old = self.world.array_const(key)
                    self.heap.arrays[key] = old
                fv = z3.Const(f"hv_{key}!{next(self.ctr)}", old.sort().range())
                if z3.is_app(r) and r.decl().kind() == z3.Z3_OP_ITE and r.arg(2).eq(NOWHERE):
                    # conditional frame: nothing is touched when the condition is false
                    self.heap.set(key, z3.If(r.arg(0), z3.Store(old, r.arg(1), fv), old))
                else:
                    self.heap.set(key, z3.Store(old, r, fv))
                if key in ("LLen", "GLen"):
                    self.assume(fv >= 0)

    # ------------------------------------------------------------ expression evaluation
    def truth(self, v):
        k = v.kind()
        if k == "bool":
            return v.t
        if k == "str":
            return z3.Length(v.t) > 0
        if k == "int":
            return v.t != 0
        if k == "none":
            return z3.BoolVal(False)
        if k == "list":
            return z3.And(v.t != NULL, self.list_len(v, self.heap) > 0)
        if k == "ref":
            return v.t != NULL
        if k == "opt":
            return z3.And(z3.Not(v.aux), self.truth(V(v.ty[1], v.t)))
        raise VCError(f"truth value of {v.ty}")

    def eval_spec_bool(self, node, ctx):
        v = self.eval(node, ctx)
        return self.truth(v) if v.kind() != "bool" else v.t

    def eval(self, e, ctx):
        m = getattr(self, "ev_" + type(e).__name__, None)
        if m is None:
            raise VCError(f"expression {type(e).__name__} not supported at {self.where(e)}")
        return m(e, ctx)

    def ev_Constant(self, e, ctx):
        v = e.value
        if v is None:
            return NONE
        if isinstance(v, bool):
            return mk_bool(v)
        if isinstance(v, int):
            return mk_int(v)
        if isinstance(v, str):
            return mk_str(v)
        raise VCError(f"constant {v!r} not supported")

    def ev_Name(self, e, ctx):
        n = e.id
        if n in ctx.env:
            return ctx.env[n]
        if n == "result" and ctx.spec:
            return ctx.result
        if n in ("True", "False"):
            return mk_bool(n == "True")
        if n in self.prog.classes:
            return V("class", n)
        if n == "WORLD":
            # ghost object recording the observable effects of a run (files written, directories made, stdout)
            t = z3.Const("WORLD", Ref)
            self.assume(z3.And(t != NULL, birth(t) >= 0, birth(t) < self.pre_heap.now, lkind(t) == 0))
            self._entry_ids.add(t.get_id())
            self._id_keep.append(t)
            return mk_ref(t, "World", exact=True)
        if ctx.spec and n in self.world.consts and isinstance(self.world.consts[n], (str, int)):
            c = self.world.consts[n]
            return mk_str(c) if isinstance(c, str) else mk_int(c)
        if ctx.spec and self.contract is not None and n in self.contract.types and n not in ("self", "result"):
            # a local of the function that is not bound on this path (e.g. assigned in a branch not taken): in a
            # clause it stands for an arbitrary value of its declared type - the clause has to hold whatever it is
            v = fresh_of(parse_type(self.contract.types[n]), "unbound_" + n, next(self.ctr))
            if v.kind() in ("ref", "list"):
                self.assume(z3.Or(v.t == NULL, birth(v.t) < self.heap.now))
            return v
        g = self.world.global_value(self.func.module, n, self)
        if g is not None:
            return g
        if n in ("os", "re", "copy", "sys", "textwrap", "logging", "pathspec", "argparse", "CMakeParser"):
            return V("module", n)
        raise VCError(f"unknown name {n!r} at {self.where(e)}")

    def ev_JoinedStr(self, e, ctx):
        parts = []
        for p in e.values:
            if isinstance(p, ast.Constant):
                parts.append(z3.StringVal(p.value))
            elif isinstance(p, ast.FormattedValue):
                if p.format_spec is not None or p.conversion != -1:
                    raise VCError("f-string format spec not supported")
                parts.append(self.to_str(self.eval(p.value, ctx), ctx, p).t)
        if not parts:
            return mk_str("")
        return mk_str(z3.Concat(*parts) if len(parts) > 1 else parts[0])

    def to_str(self, v, ctx, node=None):
        k = v.kind()
        if k == "str":
            return v
        if k == "int":
            return mk_str(z3.If(v.t >= 0, z3.IntToStr(v.t), z3.Concat(z3.StringVal("-"), z3.IntToStr(-v.t))))
        if k == "none":
            return mk_str("None")
        if k == "opt" and v.ty[1] == "str":
            return mk_str(z3.If(v.aux, z3.StringVal("None"), v.t))
        if k == "bool":
            return mk_str(z3.If(v.t, z3.StringVal("True"), z3.StringVal("False")))
        if k == "dyn":
            if not ctx.spec:
                self.oblige(z3.Not(Dyn.is_denum(v.t)), "type", "dyn-not-enum", self.where(node) if node else "")
            iv = Dyn.ival(v.t)
            return mk_str(z3.If(Dyn.is_dstr(v.t), Dyn.sval(v.t),
                                z3.If(Dyn.is_dint(v.t),
                                      z3.If(iv >= 0, z3.IntToStr(iv), z3.Concat(z3.StringVal("-"), z3.IntToStr(-iv))),
                                      z3.StringVal("None"))))
        if k == "ref":
            return self.str_of_object(v, ctx, node)
        raise VCError(f"str() of {v.ty} not supported at {self.where(node) if node else ''}")

    def str_of_object(self, v, ctx, node):
        """str(obj): dynamic dispatch to __str__ through the heap-dependent spec function render()."""
        if ctx.spec:
            return self.world.apply_spec("render", [v], ctx, self)
        # code: call __str__ by contract, case split over the classes that define __str__
        return self.call_dynamic(v, "__str__", [], {}, node)

    def ev_BoolOp(self, e, ctx):
        if ctx.spec:
            vals = [self.eval_spec_bool(x, ctx) for x in e.values]
            return mk_bool(z3.And(*vals) if isinstance(e.op, ast.And) else z3.Or(*vals))
        # code: short-circuit, value semantics only needed for booleans here
        res = None
        for i, x in enumerate(e.values):
            v = self.eval(x, ctx)
            last = i == len(e.values) - 1
            if last:
                return v if res is None or v.kind() != "bool" else v
            t = self.truth(v)
            if isinstance(e.op, ast.And):
                if not self.choose(t):
                    return mk_bool(False) if v.kind() == "bool" else v
            else:
                if self.choose(t):
                    return mk_bool(True) if v.kind() == "bool" else v
        return v

    def ev_UnaryOp(self, e, ctx):
        v = self.eval(e.operand, ctx)
        if isinstance(e.op, ast.Not):
            return mk_bool(z3.Not(self.truth(v)))
        if isinstance(e.op, ast.USub) and v.kind() == "int":
            return mk_int(-v.t)
        raise VCError(f"unary op not supported at {self.where(e)}")

    def ev_BinOp(self, e, ctx):
        l = self.eval(e.left, ctx)
        r = self.eval(e.right, ctx)
        return self.binop(e.op, l, r, ctx, e)

    def binop(self, op, l, r, ctx, node):
        lk, rk = l.kind(), r.kind()
        if isinstance(op, ast.Add):
            if lk == "int" and rk == "int":
                return mk_int(l.t + r.t)
            if lk == "str" and rk == "str":
                return mk_str(z3.Concat(l.t, r.t))
            if lk == "str" and rk == "opt" or lk == "opt" and rk == "str" or lk == "str" and rk == "none":
                if ctx.spec:
                    raise VCError("str + optional in a spec")
                # TypeError when the optional is None
                o = r if rk in ("opt", "none") else l
                isnone = z3.BoolVal(True) if o.kind() == "none" else o.aux
                if self.choose(isnone):
                    raise RaiseSig("TypeError", self.where(node))
                ot = mk_str(o.t)
                return mk_str(z3.Concat(l.t, ot.t) if o is r else z3.Concat(ot.t, r.t))
            if lk in ("list", "listval") and rk in ("list", "listval"):
                return self.list_concat(l, r, ctx)
        if isinstance(op, ast.Sub) and lk == "int" and rk == "int":
            return mk_int(l.t - r.t)
        if isinstance(op, ast.Mult) and lk == "int" and rk == "int":
            return mk_int(l.t * r.t)
        raise VCError(f"binary op {type(op).__name__} on {l.ty},{r.ty} not supported at {self.where(node)}")

    def list_concat(self, l, r, ctx):
        n1, a1, e1 = self.as_listval(l, ctx)
        n2, a2, e2 = self.as_listval(r, ctx)
        ety = e1 if e1 != "?" else e2
        if a1 is None:
            arr, n = a2, n2
        elif a2 is None:
            arr, n = a1, n1
        else:
            i = z3.Int("i!cc")
            arr = z3.Lambda([i], z3.simplify(z3.If(i < n1, z3.Select(a1, i), z3.Select(a2, i - n1))))
            n = z3.simplify(n1 + n2)
        if ctx.spec:
            return V(("listval", ety), (n, arr))
        return self.new_list(ety, n, arr)

    def ev_IfExp(self, e, ctx):
        c = self.truth(self.eval(e.test, ctx))
        if ctx.spec:
            a = self.eval(e.body, ctx)
            b = self.eval(e.orelse, ctx)
            return self.ite(c, a, b)
        if self.choose(c):
            return self.eval(e.body, ctx)
        return self.eval(e.orelse, ctx)

    def ite(self, c, a, b):
        if a.kind() == "none" and b.kind() == "none":
            return NONE
        if a.kind() == "none" or b.kind() == "none" or a.kind() == "opt" or b.kind() == "opt":
            inner = None
            for x in (a, b):
                if x.kind() == "opt":
                    inner = x.ty[1]
                elif x.kind() != "none":
                    inner = x.ty
            if isinstance(inner, tuple) and inner[0] in ("ref", "list"):
                a2 = self.coerce(a, inner)
                b2 = self.coerce(b, inner)
                return V(inner, z3.If(c, a2.t, b2.t))
            a2 = self.coerce(a, ("opt", inner))
            b2 = self.coerce(b, ("opt", inner))
            return mk_opt(z3.If(c, a2.aux, b2.aux), z3.If(c, a2.t, b2.t), inner)
        if a.kind() == "listval" or b.kind() == "listval":
            ctx0 = Ctx(self.env, self.heap, spec=True)
            n1, a1, e1 = self.as_listval(a, ctx0)
            n2, a2, e2 = self.as_listval(b, ctx0)
            ety = e1 if e1 != "?" else e2
            if a1 is None:
                a1 = a2
            if a2 is None:
                a2 = a1
            if a1 is None:
                return V(("listval", ety), (z3.IntVal(0), None))
            return V(("listval", ety), (z3.If(c, n1, n2), z3.If(c, a1, a2)))
        if a.kind() != b.kind():
            raise VCError(f"conditional with different types {a.ty} / {b.ty}")
        return V(a.ty, z3.If(c, a.t, b.t))

    def ev_Compare(self, e, ctx):
        left = self.eval(e.left, ctx)
        res = []
        for op, rn in zip(e.ops, e.comparators):
            right = self.eval(rn, ctx)
            res.append(self.compare(op, left, right, ctx, e))
            left = right
        return mk_bool(z3.And(*res) if len(res) > 1 else res[0])

    def compare(self, op, l, r, ctx, node):
        lk, rk = l.kind(), r.kind()
        if isinstance(op, (ast.Is, ast.IsNot, ast.Eq, ast.NotEq)):
            neg = isinstance(op, (ast.IsNot, ast.NotEq))
            t = self.equal(l, r, ctx, node, identity=isinstance(op, (ast.Is, ast.IsNot)))
            return z3.Not(t) if neg else t
        if isinstance(op, (ast.Lt, ast.LtE, ast.Gt, ast.GtE)):
            if lk == "int" and rk == "int":
                return {ast.Lt: l.t < r.t, ast.LtE: l.t <= r.t, ast.Gt: l.t > r.t, ast.GtE: l.t >= r.t}[type(op)]
            raise VCError(f"ordering comparison on {l.ty},{r.ty} at {self.where(node)}")
        if isinstance(op, (ast.In, ast.NotIn)):
            t = self.contains(r, l, ctx, node)
            return z3.Not(t) if isinstance(op, ast.NotIn) else t
        raise VCError(f"comparison not supported at {self.where(node)}")

    def equal(self, l, r, ctx, node, identity=False):
        lk, rk = l.kind(), r.kind()
        if lk == "none" and rk == "none":
            return z3.BoolVal(True)
        if lk == "none" or rk == "none":
            o = r if lk == "none" else l
            ok = o.kind()
            if ok == "opt":
                return o.aux
            if ok in ("ref", "list"):
                return o.t == NULL
            if ok == "dyn":
                return o.t == Dyn.dnone
            return z3.BoolVal(False)
        if lk == "opt" or rk == "opt":
            a = l if lk == "opt" else self.coerce(l, r.ty)
            b = r if rk == "opt" else self.coerce(r, l.ty)
            return z3.And(a.aux == b.aux, z3.Or(a.aux, a.t == b.t))
        if lk == "dyn" or rk == "dyn":
            a = self.coerce(l, "dyn")
            b = self.coerce(r, "dyn")
            return a.t == b.t
        if lk in ("ref", "list") and rk in ("ref", "list"):
            if not identity and lk == "list" and not ctx.spec:
                raise VCError(f"list == list in code not supported at {self.where(node)}")
            return l.t == r.t
        if lk == "listval" or rk == "listval":
            return self.listval_eq(l, r, ctx)
        if lk == rk and lk in ("int", "str", "bool", "enum"):
            return l.t == r.t
        if {lk, rk} == {"str", "enum"} or {lk, rk} == {"str", "int"}:
            return z3.BoolVal(False)
        if lk == "class" and rk == "class":
            return z3.BoolVal(l.t == r.t)
        raise VCError(f"equality on {l.ty},{r.ty} not supported at {self.where(node)}")

    def as_listval(self, v, ctx):
        if v.kind() == "listval":
            return v.t[0], v.t[1], v.ty[1]
        if v.kind() == "list":
            return self.list_len(v, ctx.heap), self.list_arr(v, ctx.heap), v.ty[1]
        if v.kind() == "tuple":
            ety = v.t[0].ty if v.t else "str"
            arr = z3.K(IntS, self.default_term(ety))
            for i, x in enumerate(v.t):
                arr = z3.Store(arr, i, x.t)
            return z3.IntVal(len(v.t)), arr, ety
        raise VCError(f"not a list value: {v.ty}")

    def listval_eq(self, l, r, ctx):
        n1, a1, _ = self.as_listval(l, ctx)
        n2, a2, _ = self.as_listval(r, ctx)
        i = z3.Int(f"i!le{next(self.ctr)}")
        return z3.And(n1 == n2, z3.ForAll([i], z3.Implies(z3.And(i >= 0, i < n1), z3.Select(a1, i) == z3.Select(a2, i))))

    def contains(self, container, item, ctx, node):
        ck = container.kind()
        if ck == "str":
            it = self.coerce(item, "str", node, spec=ctx.spec) if item.kind() != "str" else item
            return z3.Contains(container.t, it.t)
        if ck in ("list", "listval", "tuple"):
            n, arr, ety = self.as_listval(container, ctx)
            return self.world.list_contains(arr, n, item, ety, ctx, self)
        if ck == "strset":
            return z3.Or(*[item.t == z3.StringVal(s) for s in container.t]) if container.t else z3.BoolVal(False)
        raise VCError(f"'in' on {container.ty} not supported at {self.where(node)}")

    def _old_with_bound(self, ctx):
        """the old state, with the integer variables bound by enclosing quantifiers visible (old.l[i].f under forall i)"""
        extra = {k: v for k, v in ctx.env.items() if k not in ctx.old.env and v.kind() == "int"}
        if not extra:
            return ctx.old
        env = dict(ctx.old.env)
        env.update(extra)
        return Ctx(env, ctx.old.heap, spec=True, old=ctx.old.old, result=ctx.old.result, fuel=ctx.old.fuel,
                   entry=ctx.old.entry)

    def _mark_root(self, e, ctx):
        r = e
        while isinstance(r, (ast.Attribute, ast.Subscript)):
            r = r.value
        if ctx.spec and isinstance(r, ast.Name) and r.id in self._marks and r.id not in ctx.env:
            return r.id
        return None

    def _retarget_mark(self, e, name):
        if isinstance(e, ast.Attribute):
            if isinstance(e.value, ast.Name) and e.value.id == name:
                return ast.Attribute(value=ast.Name(id="old", ctx=ast.Load()), attr=e.attr, ctx=ast.Load())
            return ast.Attribute(value=self._retarget_mark(e.value, name), attr=e.attr, ctx=ast.Load())
        if isinstance(e, ast.Subscript):
            return ast.Subscript(value=self._retarget_mark(e.value, name), slice=e.slice, ctx=ast.Load())
        return e

    def ev_Attribute(self, e, ctx):
        # iter<N>.<name>...: the state at the start of the current iteration of loop N
        mk = self._mark_root(e, ctx)
        if mk is not None:
            m = self._marks[mk]
            sub = Ctx(ctx.env, ctx.heap, spec=True, old=Ctx(m[0], m[1], spec=True), result=ctx.result, fuel=ctx.fuel)
            return self.ev_Attribute(self._retarget_mark(e, mk), sub)
        # entry.<name>... in loop invariants: the state at loop entry
        if ctx.spec and self._rooted_at_old(e, "entry") and "entry" not in ctx.env:
            if ctx.entry is None:
                raise VCError("entry used outside a loop invariant")
            sub = Ctx(ctx.env, ctx.heap, spec=True, old=ctx.entry, result=ctx.result, fuel=ctx.fuel)
            return self.ev_Attribute(self._retarget(e), sub)
        # old.<name>... in specs
        if ctx.spec and isinstance(e.value, ast.Name) and e.value.id == "old" and "old" not in ctx.env:
            if ctx.old is None:
                raise VCError("old used outside a postcondition")
            v = self.eval(ast.Name(id=e.attr, ctx=ast.Load()), ctx.old)
            if v.kind() in ("list", "ref"):
                v = V(v.ty, v.t, aux=ctx.old.heap, exact=v.exact)
            return v
        if ctx.spec and self._rooted_at_old(e) and "old" not in ctx.env:
            inner = self._strip_old(e)
            v = self.eval(inner, self._old_with_bound(ctx))
            if v.kind() in ("list", "ref"):
                # snapshot semantics: everything read through an old value is read in the old heap
                v = V(v.ty, v.t, aux=ctx.old.heap, exact=v.exact)
            return v
        obj = self.eval(e.value, ctx)
        k = obj.kind()
        if k == "ref":
            cname = obj.ty[1]
            if cname in self.prog.classes:
                m = self.prog.find_method(cname, e.attr)
                if m is not None and m.is_property:
                    if ctx.spec:
                        return self.world.inline_property(m, obj, ctx, self)
                    return self.call_function(m, [obj], {}, e)
                if m is not None:
                    return V("callable", ("method", obj, e.attr))
            if self.world.has_field(cname, e.attr, self.cur_class()):
                return self.load_field(obj, e.attr, ctx.heap, e)
            ext = self.world.external_attr(cname, e.attr)
            if ext is not None:
                return V("callable", ("method", obj, e.attr))
            if e.attr == "__dict__" and cname in self.prog.classes:
                return V("callable", ("dict_of", obj))
            narrowed = self.narrow_for_field(obj, e.attr, ctx, e)
            if narrowed is not None:
                return self.load_field(narrowed, e.attr, ctx.heap, e)
            raise VCError(f"unknown attribute {cname}.{e.attr} at {self.where(e)}")
        if k == "class":
            ci = self.prog.classes[obj.t]
            if ci.is_enum and e.attr in ci.enum_members:
                return mk_enum(ci.enum_members[e.attr], obj.t)
            if e.attr in ci.methods:
                return V("callable", ("static", obj.t, e.attr))
            raise VCError(f"class attribute {obj.t}.{e.attr} not supported")
        if k == "module":
            mc = {"os.curdir": ".", "os.pardir": "..", "os.sep": "/"}      # POSIX (stated in DESIGN.md: T-OS)
            if obj.t + "." + e.attr in mc:
                return mk_str(mc[obj.t + "." + e.attr])
            return V("module", obj.t + "." + e.attr)
        if k in ("str", "list"):
            return V("callable", ("builtin_method", obj, e.attr))
        if k == "exc":
            return V("module", "exc." + e.attr)
        raise VCError(f"attribute {e.attr} on {obj.ty} not supported at {self.where(e)}")

    def _retarget(self, e):
        """entry.x.y -> old.x.y (evaluated with old bound to the loop-entry state)"""
        if isinstance(e, ast.Attribute):
            if isinstance(e.value, ast.Name) and e.value.id == "entry":
                return ast.Attribute(value=ast.Name(id="old", ctx=ast.Load()), attr=e.attr, ctx=ast.Load())
            return ast.Attribute(value=self._retarget(e.value), attr=e.attr, ctx=ast.Load())
        if isinstance(e, ast.Subscript):
            return ast.Subscript(value=self._retarget(e.value), slice=e.slice, ctx=ast.Load())
        return e

    def _rooted_at_old(self, e, root="old"):
        while isinstance(e, (ast.Attribute, ast.Subscript)):
            e = e.value
        return isinstance(e, ast.Name) and e.id == root

    def _strip_old(self, e):
        """old.self.x.y  ->  self.x.y  (as a new AST)"""
        if isinstance(e, ast.Attribute):
            if isinstance(e.value, ast.Name) and e.value.id in ("old", "entry"):
                return ast.Name(id=e.attr, ctx=ast.Load())
            return ast.Attribute(value=self._strip_old(e.value), attr=e.attr, ctx=ast.Load())
        if isinstance(e, ast.Subscript):
            return ast.Subscript(value=self._strip_old(e.value), slice=e.slice, ctx=ast.Load())
        return e

    def ev_Subscript(self, e, ctx):
        mk = self._mark_root(e, ctx)
        if mk is not None:
            m = self._marks[mk]
            sub = Ctx(ctx.env, ctx.heap, spec=True, old=Ctx(m[0], m[1], spec=True), result=ctx.result, fuel=ctx.fuel)
            return self.ev_Subscript(self._retarget_mark(e, mk), sub)
        if ctx.spec and self._rooted_at_old(e, "entry") and "entry" not in ctx.env:
            if ctx.entry is None:
                raise VCError("entry used outside a loop invariant")
            sub = Ctx(ctx.env, ctx.heap, spec=True, old=ctx.entry, result=ctx.result, fuel=ctx.fuel)
            return self.ev_Subscript(self._retarget(e), sub)
        if ctx.spec and self._rooted_at_old(e) and "old" not in ctx.env:
            # the index expression is evaluated in the current state, the container in the old one
            base = self.eval(self._strip_old(e.value), self._old_with_bound(ctx))
            return self.subscript(base, e, ctx, ctx.old.heap)
        base = self.eval(e.value, ctx)
        return self.subscript(base, e, ctx, ctx.heap)

    def subscript(self, base, e, ctx, heap):
        k = base.kind()
        sl = e.slice
        if isinstance(sl, ast.Slice):
            if sl.step is not None:
                raise VCError("slice step not supported")
            lo = self.eval(sl.lower, ctx).t if sl.lower is not None else None
            hi = self.eval(sl.upper, ctx).t if sl.upper is not None else None
            if k == "str":
                n = z3.Length(base.t)
                a = self.norm_index_clamp(lo, n) if lo is not None else z3.IntVal(0)
                b = self.norm_index_clamp(hi, n) if hi is not None else n
                return mk_str(z3.SubString(base.t, a, z3.If(b > a, b - a, z3.IntVal(0))))
            if k in ("list", "listval", "tuple"):
                n, arr, ety = self.as_listval(base, Ctx(ctx.env, heap, spec=ctx.spec))
                a = self.norm_index_clamp(lo, n) if lo is not None else z3.IntVal(0)
                b = self.norm_index_clamp(hi, n) if hi is not None else n
                i = z3.Int("i!sl")
                newarr = arr if lo is None else z3.Lambda([i], z3.simplify(z3.Select(arr, i + a)))
                newlen = z3.If(b > a, b - a, z3.IntVal(0))
                if ctx.spec:
                    return V(("listval", ety), (z3.simplify(newlen), newarr))
                return self.new_list(ety, z3.simplify(newlen), newarr, "slice")
            raise VCError(f"slice of {base.ty} at {self.where(e)}")
        idx = self.eval(sl, ctx)
        if k == "str":
            n = z3.Length(base.t)
            if ctx.spec:
                i = self.norm_index(idx.t, n)
            else:
                i = self.checked_index(idx.t, n, e)
            return mk_str(z3.SubString(base.t, i, 1))
        if k == "list":
            n = self.list_len(base, heap)
            if ctx.spec:
                i = self.norm_index(idx.t, n)
                return self.list_get(base, i, heap, assume_wf=False)
            i = self.checked_index(idx.t, n, e)
            return self.list_get(base, i, heap)
        if k == "listval":
            n, arr = base.t
            i = self.norm_index(idx.t, n)
            return V(base.ty[1], z3.simplify(z3.Select(arr, i)))
        if k == "tuple":
            if z3.is_int_value(z3.simplify(idx.t)):
                j = z3.simplify(idx.t).as_long()
                if -len(base.t) <= j < len(base.t):
                    return base.t[j]
                if not ctx.spec:
                    raise RaiseSig("IndexError", self.where(e))
            raise VCError("symbolic index into a tuple")
        if k == "callable" and base.t[0] == "dict_of":
            return self.world.dict_lookup(base, idx, ctx, self, e)
        raise VCError(f"subscript on {base.ty} at {self.where(e)}")

    def ev_Tuple(self, e, ctx):
        return V("tuple", [self.eval(x, ctx) for x in e.elts])

    def ev_List(self, e, ctx):
        vals = [self.eval(x, ctx) for x in e.elts]
        if ctx.spec:
            if not vals:
                return V(("listval", "?"), (z3.IntVal(0), None))
            t = V("tuple", vals)
            n, arr, ety = self.as_listval(t, ctx)
            return V(("listval", ety), (n, arr))
        if not vals:
            return self.new_list("?", z3.IntVal(0), None)
        ety = vals[0].ty
        if isinstance(ety, tuple) and ety[0] == "ref":
            ety = ("ref", None) if len({v.ty for v in vals}) > 1 else ety
        arr = z3.K(IntS, self.default_term(ety))
        for i, v in enumerate(vals):
            arr = z3.Store(arr, i, self.coerce(v, ety).t)
        return self.new_list(ety, z3.IntVal(len(vals)), arr)

    def ev_Lambda(self, e, ctx):
        return V("callable", ("lambda", e, ctx))

    def ev_ListComp(self, e, ctx):
        return self.world.comprehension(e, ctx, self)

    def ev_GeneratorExp(self, e, ctx):
        return self.world.comprehension(e, ctx, self)

    def ev_Starred(self, e, ctx):
        return V("starred", self.eval(e.value, ctx))

    def ev_Call(self, e, ctx):
        return self.world.call(e, ctx, self)

    # ------------------------------------------------------------ calls through contracts
    def call_function(self, fi, args, kwargs, node, key_suffix="", recv_exact_class=None):
        """Call a function of the program by its contract."""
        c = self.world.contract_for(fi, key_suffix)
        if c is None:
            raise VCError(f"call to {fi.key}{key_suffix} at {self.where(node)}: no contract")
        self.world.note_callee(self.label, fi.key + key_suffix)
        recv_cls = None
        if fi.cls is not None and not fi.is_static and args:
            recv_cls = args[0].ty[1] if args[0].kind() == "ref" else None
        ptypes = self.world.param_types(fi, recv_cls if recv_cls in self.prog.classes else None)
        bound = self.bind_args(fi, ptypes, args, kwargs, node)
        cenv = dict(bound)
        pre = Ctx(cenv, self.heap, spec=True)
        for i, clause in enumerate(c.requires_clauses()):
            self.oblige(self.eval_spec_bool(clause, pre), "pre", f"{fi.qualname}{key_suffix}.{i}", self.where(node))
        old_heap = self.heap.copy()
        old_ctx = Ctx(dict(cenv), old_heap, spec=True)
        # effects
        self.havoc_heap(c.modifies, cenv, old_heap, fi.cls.name if fi.cls is not None else None)
        nn = z3.Int(f"now!{next(self.ctr)}")
        self.assume(nn >= self.heap.now)
        self.heap.now = nn
        # exceptional outcomes
        for exc, cond_ast in c.raises.items():
            cond = self.eval_spec_bool(cond_ast, Ctx(cenv, self.heap, spec=True, old=old_ctx))
            if c.raises_exact:
                if self.choose(cond):
                    raise RaiseSig(exc, self.where(node))
            else:
                may = z3.Bool(f"raises!{next(self.ctr)}")
                if self.choose(z3.And(cond, may)):
                    raise RaiseSig(exc, self.where(node))
        rty = self.world.return_type(fi)
        res = NONE
        if rty != "none" and c.returns is not None and not c.modifies:
            # a pure function with a `returns` expression: its result IS that term (needed inside comprehensions,
            # where a fresh result constant could not depend on the element)
            res = self.coerce(self.eval(c.returns, Ctx(cenv, self.heap, spec=True)), rty, node, spec=True)
        elif rty != "none":
            res = self.fresh(rty, "r_" + fi.name)
            if c.result_exact and res.kind() == "ref":
                res.exact = True
                self.assume(typeof(res.t) == self.world.class_id(res.ty[1]))
            self.assume_result_wf(res)
        post = Ctx(cenv, self.heap, spec=True, old=old_ctx, result=res)
        self.soft_mode = True
        try:
            for label, clause in c.ensures_clauses(caller=True):
                self.assume(self.eval_spec_bool(clause, post))
        finally:
            self.soft_mode = False
        return res

    def assume_result_wf(self, res):
        k = res.kind()
        if k in ("ref", "list"):
            nullable = False
            self.assume(z3.And(res.t != NULL, birth(res.t) >= 0, birth(res.t) < self.heap.now))
            if k == "ref" and res.ty[1] in self.prog.classes and not res.exact:
                self.assume(self.subclass_cond(res.t, res.ty[1]))
            if k == "list":
                self.assume(self.list_len(res, self.heap) >= 0)

    def bind_args(self, fi, ptypes, args, kwargs, node):
        a = fi.node.args
        names = [x.arg for x in a.posonlyargs + a.args]
        defaults = dict(zip(names[len(names) - len(a.defaults):], a.defaults))
        bound = {}
        pos = list(args)
        # expand starred actuals
        flat = []
        for x in pos:
            if x.kind() == "starred":
                inner = x.t
                if inner.kind() == "tuple":
                    flat.extend(inner.t)
                else:
                    flat.append(x)
            else:
                flat.append(x)
        pos = flat
        for i, n in enumerate(names):
            if i < len(pos) and pos[i].kind() != "starred":
                bound[n] = pos[i]
            elif n in kwargs:
                bound[n] = kwargs[n]
            elif n in defaults:
                bound[n] = self.world.default_value(fi, n, defaults[n], self)
            else:
                if not self.choose(z3.BoolVal(False)):
                    raise RaiseSig("TypeError", self.where(node))
        rest = pos[len(names):]
        if a.vararg is not None:
            if len(rest) == 1 and rest[0].kind() == "starred":
                bound[a.vararg.arg] = rest[0].t
            else:
                bound[a.vararg.arg] = V("tuple", rest)
        elif rest:
            raise RaiseSig("TypeError", self.where(node))
        for kw in a.kwonlyargs:
            if kw.arg in kwargs:
                bound[kw.arg] = kwargs[kw.arg]
            else:
                idx = a.kwonlyargs.index(kw)
                d = a.kw_defaults[idx]
                bound[kw.arg] = self.world.default_value(fi, kw.arg, d, self)
        for n in list(bound):
            if n in ptypes and bound[n].kind() not in ("starred",):
                if bound[n].kind() == "tuple" and not (isinstance(ptypes[n], tuple) and ptypes[n][0] == "list"):
                    continue
                bound[n] = self.coerce(bound[n], ptypes[n], node)
        return bound

    def call_dynamic(self, recv, mname, args, kwargs, node):
        """Dynamic dispatch.  If a virtual contract `virtual:<method>` exists, it is used (behavioural subtyping:
        every implementation is verified against its own contract, whose postcondition and frame are textually
        the virtual ones and whose precondition is proved from the virtual one - see verify_virtual).
        Otherwise: case split over the concrete classes the receiver may have."""
        vc = self.world.contracts.get("virtual:" + mname)
        if vc is not None and not recv.exact:
            return self.world.call_external("virtual:" + mname, recv, args, kwargs, node,
                                            Ctx(self.env, self.heap), self)
        cname = recv.ty[1]
        if recv.exact:
            cands = [cname]
        else:
            if cname is None:
                cands = [c for c in self.prog.classes if self.prog.find_method(c, mname) is not None
                         and self.world.is_concrete(c)]
            else:
                cands = [c for c in self.prog.subclasses(cname) if self.world.is_concrete(c)
                         and self.prog.find_method(c, mname) is not None]
        # group candidates by the method they resolve to
        groups = {}
        for c in cands:
            m = self.prog.find_method(c, mname)
            groups.setdefault(m.key, (m, []))[1].append(c)
        glist = list(groups.values())
        if not glist:
            raise VCError(f"no implementation of {mname} for {cname} at {self.where(node)}")
        if cname is None or not recv.exact:
            allids = [self.world.class_id(c) for _, cs in glist for c in cs]
            known = z3.Or(*[typeof(recv.t) == i for i in allids])
            if cname is None:
                # receiver of unknown class: it must be one of the classes that implement the method
                self.oblige(known, "dispatch", mname, self.where(node))
        for gi, (m, cs) in enumerate(glist):
            cond = z3.Or(*[typeof(recv.t) == self.world.class_id(c) for c in cs])
            if gi == len(glist) - 1 or self.choose(cond):
                if gi == len(glist) - 1:
                    self.assume(cond)
                rc = cs[0] if len(cs) == 1 else m.cls.name
                r2 = mk_ref(recv.t, rc, exact=(len(cs) == 1))
                return self.call_function(m, [r2] + args, kwargs, node)
        raise PathEnd()
