"""World: the program model plus the sidecar contracts, spec functions, lemmas and the
models of Python built-ins (DESIGN.md 2.2).  Contracts are Python files that are *parsed*,
never imported, by the verifier; the same files are imported by runtime.py to evaluate the
same clauses natively on real executions (witness check, replay, bounded stand-in)."""
import ast
import glob
import os
import z3

from .front import Program, FuncInfo
from .sv import (V, VCError, Heap, Ref, NULL, birth, typeof, IntS, BoolS, StrS, Dyn, mk_int, mk_bool, mk_str, mk_ref,
                 mk_list, mk_opt, mk_enum, NONE, fresh_of, sort_of, elem_array_key, parse_type)
from . import engine as E
from .engine import Ctx, RaiseSig, PathEnd, conj


class LoopSpec:
    def __init__(self, ordinal, inv_nodes, modifies, elem, step_nodes=None, lean=False):
        self.ordinal = ordinal
        # lean: inside the loop body the quantified facts collected BEFORE the loop are dropped (the invariant has to
        # carry what the body needs, as in any invariant-based verifier).  Dropping hypotheses is always sound; it
        # keeps the queries of a late loop free of the quantified facts of everything that ran before it.
        self.lean = lean
        self.inv_nodes = inv_nodes      # list of (label, expr ast)
        self.modifies = modifies
        self.elem = elem
        # step clauses: proved at every exit of one iteration of the body (fall-through, continue, break) about
        # that iteration alone; `iter<ordinal>.x` is the state at the start of the iteration, `_broke` says whether
        # the iteration left the loop with break.  Never assumed anywhere (composition over iterations is on paper).
        self.step_nodes = step_nodes or []

    def clauses(self):
        return self.inv_nodes


def split_conj(e):
    """Top-level conjuncts; a guard is distributed:  G or (A and B)  ->  [G or A, G or B]  (one obligation each)."""
    if isinstance(e, ast.BoolOp) and isinstance(e.op, ast.And):
        out = []
        for v in e.values:
            out.extend(split_conj(v))
        return out
    if isinstance(e, ast.BoolOp) and isinstance(e.op, ast.Or):
        parts = [split_conj(v) for v in e.values]
        multi = [i for i, p in enumerate(parts) if len(p) > 1]
        if len(multi) == 1:
            i = multi[0]
            out = []
            for c in parts[i]:
                vals = list(e.values[:i]) + [c] + list(e.values[i + 1:])
                out.append(ast.copy_location(ast.BoolOp(op=ast.Or(), values=vals), e))
            return out
    return [e]


def fn_return_expr(fn):
    """The expression a contract clause function returns (single `return <expr>`, optional docstring)."""
    body = [s for s in fn.body if not (isinstance(s, ast.Expr) and isinstance(s.value, ast.Constant))]
    if len(body) != 1 or not isinstance(body[0], ast.Return):
        raise VCError(f"contract clause {fn.name}: body must be a single return")
    return body[0].value


class Contract:
    def __init__(self, key, node, path):
        self.key = key
        self.node = node
        self.path = path
        self.types = {}
        self.requires = []      # [expr]
        self.assumes = []       # [expr]  (assumptions, listed in evidence)
        self.ensures = []       # [(label, expr)]
        self.modifies = []
        self.raises = {}
        self.raises_exact = True
        self.loops = {}
        self.result_exact = False
        self.trusted = False
        self.returns = None
        self.notes = []
        self.props = []
        self.receivers = None
        self.fuel = {}
        self.clause_props = {}      # clause label -> properties it belongs to (default: all of `props`)
        for st in node.body:
            if isinstance(st, ast.FunctionDef):
                expr = fn_return_expr(st)
                if st.name == "requires":
                    self.requires.extend(split_conj(expr))
                elif st.name.startswith("assume"):
                    self.assumes.extend(split_conj(expr))
                elif st.name.startswith("ensures"):
                    lab = st.name[8:] or "post"
                    for i, c in enumerate(split_conj(expr)):
                        self.ensures.append((f"{lab}.{i}", c))
                elif st.name == "returns":
                    self.returns = expr
                else:
                    raise VCError(f"{path}: contract {key}: unknown clause {st.name}")
            elif isinstance(st, ast.Assign) and isinstance(st.targets[0], ast.Name):
                n = st.targets[0].id
                if n == "types":
                    self.types = ast.literal_eval(st.value)
                elif n == "modifies":
                    self.modifies = ast.literal_eval(st.value)
                elif n == "raises":
                    for k, v in zip(st.value.keys, st.value.values):
                        self.raises[k.value] = v.body if isinstance(v, ast.Lambda) else v
                elif n == "raises_exact":
                    self.raises_exact = ast.literal_eval(st.value)
                elif n == "result_exact":
                    self.result_exact = ast.literal_eval(st.value)
                elif n == "trusted":
                    self.trusted = ast.literal_eval(st.value)
                elif n == "notes":
                    self.notes = ast.literal_eval(st.value)
                elif n == "props":
                    self.props = ast.literal_eval(st.value)
                elif n == "receivers":
                    self.receivers = ast.literal_eval(st.value)
                elif n == "fuel":
                    self.fuel = ast.literal_eval(st.value)
                elif n == "clause_props":
                    self.clause_props = ast.literal_eval(st.value)
                elif n == "loops":
                    for k, v in zip(st.value.keys, st.value.values):
                        self.loops[k.value] = self.parse_loop(k.value, v)
                else:
                    raise VCError(f"{path}: contract {key}: unknown attribute {n}")

    def parse_loop(self, ordinal, call):
        inv_nodes, modifies, elem, step_nodes, lean = [], None, None, [], False
        for kw in call.keywords:
            if kw.arg == "lean":
                lean = ast.literal_eval(kw.value)
            if kw.arg == "step":
                lams = kw.value.elts if isinstance(kw.value, (ast.List, ast.Tuple)) else [kw.value]
                for li, lam in enumerate(lams):
                    body = lam.body if isinstance(lam, ast.Lambda) else lam
                    for ci, c in enumerate(split_conj(body)):
                        step_nodes.append((f"{li}.{ci}", c))
            elif kw.arg == "inv":
                lams = kw.value.elts if isinstance(kw.value, (ast.List, ast.Tuple)) else [kw.value]
                for li, lam in enumerate(lams):
                    body = lam.body if isinstance(lam, ast.Lambda) else lam
                    for ci, c in enumerate(split_conj(body)):
                        inv_nodes.append((f"{li}.{ci}", c))
            elif kw.arg == "modifies":
                modifies = ast.literal_eval(kw.value)
            elif kw.arg == "elem":
                elem = ast.literal_eval(kw.value)
        return LoopSpec(ordinal, inv_nodes, modifies, elem, step_nodes, lean)

    def requires_clauses(self):
        return self.requires

    def assume_clauses(self):
        return self.assumes

    def ensures_clauses(self, caller=False):
        """ghost clauses (proof steps that mention the function's locals) are proved in the function itself and
        are not part of what callers may assume"""
        if caller:
            return [(l, c) for (l, c) in self.ensures if not l.startswith("ghost")]
        return self.ensures


class SpecFn:
    def __init__(self, node, path):
        self.name = node.name
        self.node = node
        self.path = path
        self.params = [(a.arg, ann_str(a.annotation)) for a in node.args.args]
        self.ret = ann_str(node.returns) if node.returns is not None else "bool"
        self.reads = []
        self.recursive = False
        self.axioms_only = False
        self.nonneg = False       # result is >= 0 (must be backed by a lemma `<name>_nonneg`)
        self.ghost = None         # symbolically: the ghost field of the first argument; natively: the function body


def ann_str(a):
    if a is None:
        return None
    if isinstance(a, ast.Constant):
        return a.value
    if isinstance(a, ast.Name):
        return a.id
    return ast.unparse(a)


class Lemma:
    def __init__(self, node, path):
        self.name = node.name
        self.node = node
        self.path = path
        self.params = [(a.arg, ann_str(a.annotation)) for a in node.args.args]
        self.requires = []
        self.ensures = []
        self.induction = None
        self.trusted = False
        self.props = []
        for st in node.body:
            if isinstance(st, ast.Expr) and isinstance(st.value, ast.Call) and isinstance(st.value.func, ast.Name):
                f = st.value.func.id
                if f == "requires":
                    self.requires.extend(split_conj(st.value.args[0]))
                elif f == "ensures":
                    self.ensures.extend(split_conj(st.value.args[0]))
                elif f == "induction":
                    self.induction = st.value.args[0].id
                elif f == "trusted":
                    self.trusted = True
                elif f == "props":
                    self.props = [a.value for a in st.value.args]


class World:
    def __init__(self, src_root, contracts_dir):
        self.prog = Program(src_root)
        self.contracts_dir = contracts_dir
        self.contracts = {}
        self.specs = {}
        self.lemmas = {}
        self.field_types = {}
        self.ghost_fields = {}       # "Class.field" -> type string
        self.nullable = set()
        self.ext_classes = {}        # external class name -> {"fields": {...}, "bases": [...]}
        self.class_attr_axioms = {}
        self._class_ids = {}
        self._loop_ord = {}
        self.trivial_count = {}
        self.dropped = set()
        self.callees = {}
        self.spec_ufs = {}
        self.used_trusted = {}
        self.consts = {}
        self.owned = []
        self.assumed_ownership = set()
        self.assumed_clauses = set()
        self.load_contracts()

    # ------------------------------------------------------------ loading
    def load_contracts(self):
        paths = sorted(glob.glob(os.path.join(self.contracts_dir, "*.py")))
        trees = {}
        for path in paths:
            with open(path, encoding="utf-8") as f:
                trees[path] = ast.parse(f.read(), filename=path)
            for st in trees[path].body:
                if isinstance(st, ast.Assign) and isinstance(st.targets[0], ast.Name) and st.targets[0].id.isupper():
                    try:
                        self.consts[st.targets[0].id] = ast.literal_eval(st.value)
                    except ValueError:
                        pass
        for path in paths:
            tree = trees[path]
            for st in tree.body:
                if isinstance(st, ast.ClassDef):
                    for d in st.decorator_list:
                        if isinstance(d, ast.Call) and getattr(d.func, "id", "") == "contract":
                            key = d.args[0].value
                            if key in self.contracts:
                                raise VCError(f"duplicate contract {key}")
                            self.contracts[key] = Contract(key, st, path)
                elif isinstance(st, ast.FunctionDef):
                    decs = [getattr(d, "id", getattr(getattr(d, "func", None), "id", "")) for d in st.decorator_list]
                    if "spec" in decs:
                        sf = SpecFn(st, path)
                        for d in st.decorator_list:
                            if isinstance(d, ast.Call):
                                for kw in d.keywords:
                                    if kw.arg == "reads":
                                        sf.reads = (self.consts[kw.value.id] if isinstance(kw.value, ast.Name)
                                                    else ast.literal_eval(kw.value))
                                    if kw.arg == "axioms_only":
                                        sf.axioms_only = ast.literal_eval(kw.value)
                                    if kw.arg == "nonneg":
                                        sf.nonneg = ast.literal_eval(kw.value)
                                    if kw.arg == "ghost":
                                        sf.ghost = ast.literal_eval(kw.value)
                                    if kw.arg == "opaque":
                                        sf.opaque = ast.literal_eval(kw.value)
                        self.specs[sf.name] = sf
                    elif "lemma" in decs:
                        self.lemmas[st.name] = Lemma(st, path)
                elif isinstance(st, ast.Expr) and isinstance(st.value, ast.Call) and \
                        isinstance(st.value.func, ast.Attribute) and st.value.func.attr == "update" and \
                        isinstance(st.value.func.value, ast.Name):
                    tgt = {"FIELD_TYPES": self.field_types, "GHOST_FIELDS": self.ghost_fields,
                           "EXTERNAL_CLASSES": self.ext_classes}.get(st.value.func.value.id)
                    if tgt is not None:
                        tgt.update(ast.literal_eval(st.value.args[0]))
                elif isinstance(st, ast.Assign) and isinstance(st.targets[0], ast.Name):
                    n = st.targets[0].id
                    if n == "FIELD_TYPES":
                        self.field_types.update(ast.literal_eval(st.value))
                    elif n == "GHOST_FIELDS":
                        self.ghost_fields.update(ast.literal_eval(st.value))
                    elif n == "NULLABLE":
                        self.nullable.update(ast.literal_eval(st.value))
                    elif n == "EXTERNAL_CLASSES":
                        self.ext_classes.update(ast.literal_eval(st.value))
                    elif n == "OWNED_LIST_FIELDS":
                        self.owned.extend(ast.literal_eval(st.value))
                    elif n.isupper():
                        try:
                            self.consts[n] = ast.literal_eval(st.value)
                        except ValueError:
                            pass
        # recursion detection for spec functions
        for sf in self.specs.values():
            called = {n.func.id for n in ast.walk(sf.node) if isinstance(n, ast.Call) and isinstance(n.func, ast.Name)}
            sf.calls = called & set(self.specs)
        changed = True
        reach = {n: set(sf.calls) for n, sf in self.specs.items()}
        while changed:
            changed = False
            for n in reach:
                for m in list(reach[n]):
                    new = reach[m] - reach[n]
                    if new:
                        reach[n] |= new
                        changed = True
        for n, sf in self.specs.items():
            sf.recursive = n in reach[n]

    # ------------------------------------------------------------ lookups
    def contract_for(self, fi, suffix=""):
        key = fi.key if isinstance(fi, FuncInfo) else fi
        if isinstance(fi, FuncInfo) and fi.is_setter and not suffix:
            suffix = ".setter"
        return self.contracts.get(key + suffix)

    def class_id(self, cname):
        if cname not in self._class_ids:
            self._class_ids[cname] = len(self._class_ids) + 1
        return self._class_ids[cname]

    def is_concrete(self, cname):
        ci = self.prog.classes.get(cname)
        if ci is None:
            return True
        if "ABC" in ci.bases:
            return False
        return True

    def loop_ordinals(self, fi):
        k = fi.key + (".setter" if fi.is_setter else "")
        if k not in self._loop_ord:
            nodes = []
            for n in ast.walk(fi.node):
                if isinstance(n, ast.For):
                    nodes.append(n)
                elif isinstance(n, (ast.ListComp, ast.GeneratorExp)) and any(g.ifs for g in n.generators):
                    nodes.append(n)
            nodes.sort(key=lambda n: (n.lineno, n.col_offset))
            self._loop_ord[k] = {id(n): i for i, n in enumerate(nodes)}
        return self._loop_ord[k]

    def assigned_names(self, st):
        names = set()
        for n in ast.walk(st):
            if isinstance(n, ast.Name) and isinstance(n.ctx, ast.Store):
                names.add(n.id)
        return sorted(names)

    def note_callee(self, caller, callee):
        self.callees.setdefault(caller, set()).add(callee)
        c = self.contracts.get(callee)
        if c is not None and c.trusted:
            self.used_trusted.setdefault(caller, set()).add(callee)

    # ---- types
    def ann_to_type(self, ann):
        if ann is None:
            return None
        if isinstance(ann, ast.Constant) and isinstance(ann.value, str):
            name = ann.value
            if name in self.prog.classes:
                return ("ref", name)
            try:
                return parse_type(name)
            except VCError:
                return ("ref", None)
        if isinstance(ann, ast.Name):
            n = ann.id
            if n in ("str", "int", "bool"):
                return n
            if n in ("list", "List", "tuple", "Tuple"):
                return ("list", ("ref", None))
            if n == "Any" or n == "object":
                return ("ref", None)
            if n == "dict":
                return ("ref", "dict")
            if n in self.prog.classes:
                return ("enum", n) if self.prog.classes[n].is_enum else ("ref", n)
            return ("ref", n)
        if isinstance(ann, ast.Attribute):
            return ("ref", ann.attr)
        if isinstance(ann, ast.Subscript):
            base = ann.value.id if isinstance(ann.value, ast.Name) else getattr(ann.value, "attr", "")
            if base in ("List", "Tuple", "list", "tuple"):
                inner = ann.slice
                if isinstance(inner, ast.Tuple):
                    inner = inner.elts[0]
                return ("list", self.ann_to_type(inner))
            if base in ("Union", "Optional"):
                alts = ann.slice.elts if isinstance(ann.slice, ast.Tuple) else [ann.slice]
                non_none = [a for a in alts if not (isinstance(a, ast.Constant) and a.value is None)]
                has_none = len(non_none) != len(alts) or base == "Optional"
                if len(non_none) == 1:
                    t = self.ann_to_type(non_none[0])
                    if has_none and t in ("str", "int", "bool"):
                        return ("opt", t)
                    if has_none and isinstance(t, tuple) and t[0] == "ref":
                        return ("ref", t[1], True)
                    return t
                return "dyn"
        return ("ref", None)

    def param_types(self, fi, recv_class=None):
        c = self.contract_for(fi)
        out = {}
        a = fi.node.args
        for i, arg in enumerate(a.posonlyargs + a.args):
            n = arg.arg
            if c is not None and n in c.types:
                out[n] = parse_type(c.types[n])
            elif n == "self" and fi.cls is not None and i == 0 and not fi.is_static:
                out[n] = ("ref", recv_class or fi.cls.name)
            else:
                t = self.ann_to_type(arg.annotation)
                if t is None:
                    raise VCError(f"{fi.key}: parameter {n} has no type (add it to the contract's types)")
                out[n] = t
        for arg in a.kwonlyargs:
            n = arg.arg
            out[n] = parse_type(c.types[n]) if c is not None and n in c.types else self.ann_to_type(arg.annotation)
        if a.vararg is not None:
            n = a.vararg.arg
            if c is not None and n in c.types:
                out[n] = parse_type(c.types[n])
        return out

    def return_type(self, fi):
        c = self.contract_for(fi)
        if c is not None and "return" in c.types:
            return parse_type(c.types["return"])
        r = fi.node.returns
        if r is None or (isinstance(r, ast.Constant) and r.value is None):
            return "none"
        return self.ann_to_type(r)

    # ---- fields
    def declared_field(self, cname, attr):
        """-> (declaring class, type) or None, looking through the MRO, overrides first."""
        mro = self.prog.mro(cname) if cname in self.prog.classes else [cname] + self.ext_bases(cname)
        for c in mro:
            k = f"{c}.{attr}"
            if k in self.field_types:
                return c, parse_type(self.field_types[k])
            if k in self.ghost_fields:
                return c, parse_type(self.ghost_fields[k])
        for c in mro:
            ci = self.prog.classes.get(c)
            if ci is None:
                continue
            for (n, ann, _d) in ci.own_fields:
                if n == attr:
                    return c, self.ann_to_type(ann)
            for (n, ann) in ci.init_fields:
                if n == attr and ann is not None:
                    return c, self.ann_to_type(ann)
            if attr in ci.class_attrs and ci.class_attrs[attr][0] is not None and not ci.is_dataclass:
                return c, self.ann_to_type(ci.class_attrs[attr][0])
        for c in mro:
            ci = self.prog.classes.get(c)
            if ci is None:
                continue
            for (n, ann) in ci.init_fields:
                if n == attr:
                    raise VCError(f"field {c}.{attr} has no type annotation: declare it in FIELD_TYPES")
        return None

    def ext_bases(self, cname):
        out = []
        todo = list(self.ext_classes.get(cname, {}).get("bases", []))
        while todo:
            b = todo.pop(0)
            if b not in out:
                out.append(b)
                todo.extend(self.ext_classes.get(b, {}).get("bases", []))
        return out

    def mangle(self, attr, cur_class):
        if attr.startswith("__") and not attr.endswith("__") and cur_class:
            return attr
        return attr

    def has_field(self, cname, attr, cur_class=None):
        if cname is None:
            return False
        return self.declared_field(cname, attr) is not None

    def field_key(self, cname, attr, cur_class=None):
        if cname is None:
            raise VCError(f"attribute {attr} on an object of unknown class")
        d = self.declared_field(cname, attr)
        if d is None:
            raise VCError(f"unknown field {cname}.{attr}")
        return f"f:{d[0]}.{attr}", d[1]

    def field_nullable(self, fkey):
        if fkey[2:] in self.nullable:
            return True
        cname, attr = fkey[2:].split(".", 1)
        d = self.declared_field(cname, attr)
        return d is not None and isinstance(d[1], tuple) and len(d[1]) > 2

    def all_fields_of(self, cname):
        out = []
        seen = set()
        mro = self.prog.mro(cname) if cname in self.prog.classes else [cname] + self.ext_bases(cname)
        for c in mro:
            names = []
            ci = self.prog.classes.get(c)
            if ci is not None:
                names += [n for (n, _a, _d) in ci.own_fields] + [n for (n, _a) in ci.init_fields]
            names += [k.split(".", 1)[1] for k in list(self.field_types) + list(self.ghost_fields) if k.startswith(c + ".")]
            for n in names:
                if n in seen:
                    continue
                seen.add(n)
                d = self.declared_field(cname, n)
                if d is not None:
                    out.append((f"f:{d[0]}.{n}", d[1]))
        return out

    def array_const(self, key):
        if key == "GLen":
            return z3.Const("GLen@0", z3.ArraySort(Ref, IntS))
        if key == "GStr":
            return z3.Const("GStr@0", z3.ArraySort(Ref, z3.ArraySort(IntS, StrS)))
        if key == "LLen":
            return z3.Const("LLen@0", z3.ArraySort(Ref, IntS))
        if key == "LStr":
            return z3.Const("LStr@0", z3.ArraySort(Ref, z3.ArraySort(IntS, StrS)))
        if key == "LRef":
            return z3.Const("LRef@0", z3.ArraySort(Ref, z3.ArraySort(IntS, Ref)))
        if key == "LInt":
            return z3.Const("LInt@0", z3.ArraySort(Ref, z3.ArraySort(IntS, IntS)))
        if key.endswith("?"):
            return z3.Const(key + "@0", z3.ArraySort(Ref, BoolS))
        cname, attr = key[2:].split(".", 1)
        d = self.declared_field(cname, attr)
        return z3.Const(key + "@0", z3.ArraySort(Ref, sort_of(d[1])))

    def external_attr(self, cname, attr):
        for c in [cname] + self.ext_bases(cname or ""):
            if f"ext:{c}.{attr}" in self.contracts:
                return self.contracts[f"ext:{c}.{attr}"]
        return None

    # ------------------------------------------------------------ globals and defaults
    def global_value(self, module, name, fv):
        if name == "logger":
            return V("module", "logger")
        k = f"global:{module}.{name}"
        return None

    def default_value(self, fi, pname, node, fv):
        if isinstance(node, ast.Constant) or (isinstance(node, ast.UnaryOp) and isinstance(node.operand, ast.Constant)):
            return fv.eval(node, Ctx({}, fv.heap, spec=True))
        if isinstance(node, ast.Tuple) and not node.elts:
            return V("tuple", [])
        if isinstance(node, ast.Call) and isinstance(node.func, ast.Name) and node.func.id in self.prog.classes:
            # default argument object created once at definition time (e.g. settings=Settings())
            cname = node.func.id
            t = z3.Const(f"default:{fi.qualname}.{pname}", Ref)
            fv.assume(z3.And(t != NULL, birth(t) < fv.pre_heap.now, typeof(t) == self.class_id(cname)))
            return mk_ref(t, cname, exact=True)
        raise VCError(f"default value of {fi.key}.{pname} not supported")

    def class_attr_list(self, key, fv):
        """Global list object holding a class attribute (e.g. RSTWriter.heading_level_chars)."""
        cname, attr = key.split(".", 1)
        ci = self.prog.classes[cname]
        ann, val = ci.class_attrs[attr]
        t = z3.Const(f"classattr:{key}", Ref)
        fv.assume(z3.And(t != NULL, birth(t) < fv.pre_heap.now))
        return mk_list(t, "str"), val

    # ------------------------------------------------------------ spec functions
    def spec_sorts(self, ty):
        """z3 sorts for one spec parameter / result of type string ty."""
        t = parse_type(ty) if isinstance(ty, str) else ty
        if isinstance(t, tuple) and t[0] == "list":
            return [IntS, z3.ArraySort(IntS, sort_of(t[1]))]
        if isinstance(t, tuple) and t[0] == "opt":
            return [BoolS, sort_of(t[1])]
        return [sort_of(t)]

    def spec_arg_terms(self, v, ty, ctx, fv):
        t = parse_type(ty) if isinstance(ty, str) else ty
        if isinstance(t, tuple) and t[0] == "list":
            n, arr, ety = fv.as_listval(v, ctx)
            if arr is None:
                arr = z3.K(IntS, fv.default_term(t[1]))
            return [n, arr]
        v = fv.coerce(v, t, spec=True)
        if isinstance(t, tuple) and t[0] == "opt":
            return [v.aux, v.t]
        return [v.t]

    def spec_value(self, terms, ty):
        t = parse_type(ty) if isinstance(ty, str) else ty
        if isinstance(t, tuple) and t[0] == "list":
            return V(("listval", t[1]), (terms[0], terms[1]))
        if isinstance(t, tuple) and t[0] == "opt":
            return mk_opt(terms[0], terms[1], t[1])
        return V(t, terms[0])

    def heap_read_arrays(self, sf, heap):
        out = []
        for key in sf.reads:
            if key in ("LLen", "LStr", "LRef", "LInt"):
                a = heap.arrays.get(key)
                if a is None:
                    a = self.array_const(key)
                    heap.arrays[key] = a
            else:
                a = heap.arrays.get(key)
                if a is None:
                    a = self.array_const(key)
                    heap.arrays[key] = a
            out.append(a)
        return out

    def apply_spec(self, name, args, ctx, fv):
        sf = self.specs.get(name)
        if sf is None:
            raise VCError(f"unknown spec function {name}")
        if len(args) != len(sf.params):
            raise VCError(f"spec {name}: expected {len(sf.params)} arguments")
        env = {}
        for (pn, pty), a in zip(sf.params, args):
            terms = self.spec_arg_terms(a, pty, ctx, fv)
            env[pn] = self.spec_value(terms, pty)
            if a.kind() == "ref" and env[pn].kind() == "ref":
                # keep the more precise class and the pinned (old) heap of the actual argument
                env[pn] = V(a.ty if a.ty[1] is not None else env[pn].ty, a.t, aux=a.aux, exact=a.exact)
        if sf.ghost is not None:
            obj = env[sf.params[0][0]]
            cname, attr = sf.ghost.split(".", 1)
            return fv.load_field(V(("ref", cname), obj.t, aux=obj.aux), attr, ctx.heap)
        body = fn_return_expr(sf.node) if not sf.axioms_only else None
        if not sf.recursive and not sf.axioms_only and not getattr(sf, "opaque", False):
            v = fv.eval(body, Ctx(env, ctx.heap, spec=True, fuel=ctx.fuel))
            rt = parse_type(sf.ret)
            if not (isinstance(rt, tuple) and rt[0] == "list"):
                v = fv.coerce(v, rt, spec=True)
            return v
        # uninterpreted symbol + definitional unfolding (fuel)
        arg_terms = []
        for (pn, pty), a in zip(sf.params, args):
            arg_terms.extend(self.spec_arg_terms(a, pty, ctx, fv))
        harrs = self.heap_read_arrays(sf, ctx.heap)
        all_terms = arg_terms + harrs
        ret_sorts = self.spec_sorts(sf.ret)
        ufs = self.spec_ufs.get(name)
        if ufs is None:
            ufs = [z3.Function(f"{name}${i}" if len(ret_sorts) > 1 else name, *([t.sort() for t in all_terms] + [rs]))
                   for i, rs in enumerate(ret_sorts)]
            self.spec_ufs[name] = ufs
        res_terms = [uf(*all_terms) for uf in ufs]
        res = self.spec_value(res_terms, sf.ret)
        if sf.nonneg and not getattr(fv, "proving_nonneg", None) == name:
            if name + "_nonneg" not in self.lemmas:
                raise VCError(f"spec {name} is declared nonneg but lemma {name}_nonneg is missing")
            fv.assume(res_terms[0] >= 0)
            fv.mark_nonneg(res_terms[0])
        fuel = ctx.fuel
        if fv.contract is not None and name in fv.contract.fuel:
            fuel = min(fuel, fv.contract.fuel[name])     # definitions the proof does not need stay folded
        if fuel > 0 and not sf.axioms_only:
            bv = fv.eval(body, Ctx(env, ctx.heap, spec=True, fuel=fuel - 1))
            bterms = self.spec_arg_terms(bv, sf.ret, ctx, fv)
            for rt, bt in zip(res_terms, bterms):
                if z3.is_array(rt):
                    # list result: equality on the live range only
                    i = z3.Int(f"i!sp{next(fv.ctr)}")
                    fv.assume(z3.ForAll([i], z3.Implies(z3.And(i >= 0, i < res_terms[0]),
                                                        z3.Select(rt, i) == z3.Select(bt, i))))
                else:
                    fv.assume(rt == bt)
        return res

    def inline_property(self, m, obj, ctx, fv):
        body = [s for s in m.node.body if not (isinstance(s, ast.Expr) and isinstance(s.value, ast.Constant))]
        if len(body) == 1 and isinstance(body[0], ast.Return):
            saved = fv.func
            env = {"self": obj}
            # evaluate the getter body as a spec expression in the class of the property
            class _F:
                pass
            old_func = fv.func
            fv.func = m
            try:
                return fv.eval(body[0].value, Ctx(env, ctx.heap, spec=True, fuel=ctx.fuel))
            finally:
                fv.func = old_func
        raise VCError(f"property {m.key} is not a single return")

    def list_contains(self, arr, n, item, ety, ctx, fv):
        i = z3.Int(f"i!in{next(fv.ctr)}")
        it = fv.coerce(item, ety, spec=True)
        return z3.Exists([i], z3.And(i >= 0, i < n, z3.Select(arr, i) == it.t))

    # ------------------------------------------------------------ comprehensions
    def comprehension(self, e, ctx, fv):
        if len(e.generators) != 1:
            raise VCError("nested comprehension not supported")
        g = e.generators[0]
        if g.ifs:
            if ctx.spec:
                raise VCError("filter comprehension in a spec: use a spec function")
            return self.filter_comprehension(e, g, ctx, fv)
        # map comprehension: elementwise, as a lambda array
        src = fv.eval(g.iter, ctx) if not self.is_range_call(g.iter) else None
        if src is not None:
            n, arr, ety = fv.as_listval(src, ctx)
            start = None
        else:
            a = [fv.eval(x, ctx) for x in g.iter.args]
            start, stop = (z3.IntVal(0), a[0].t) if len(a) == 1 else (a[0].t, a[1].t)
            n = z3.If(stop > start, stop - start, z3.IntVal(0))
        idx = z3.Int(f"ci!{next(fv.ctr)}")
        fv.mark_nonneg(idx)
        env = dict(ctx.env)
        if src is not None:
            if arr is None:
                raise VCError("comprehension over an empty literal")
            item = V(ety, z3.Select(arr, idx))
            if not ctx.spec:
                wf = self.elem_wf(item, ctx.heap, fv)
                if not z3.is_true(wf):
                    jj = z3.Int("j!wf")
                    fv.assume(z3.ForAll([jj], z3.Implies(z3.And(jj >= 0, jj < n), z3.substitute(wf, (idx, jj)))))
        else:
            item = mk_int(start + idx)
        saved_pc = len(fv.pc)
        rng = z3.And(idx >= 0, idx < n)
        fv.pc.append(rng)          # in force only while the element expression is evaluated
        fv_env_saved = fv.env if hasattr(fv, "env") else None
        if isinstance(g.target, ast.Name):
            env[g.target.id] = item
        else:
            raise VCError("comprehension target must be a name")
        now_before = ctx.heap.now
        sub = Ctx(env, ctx.heap, spec=ctx.spec, old=ctx.old, result=ctx.result, fuel=ctx.fuel, entry=ctx.entry)
        val = self.eval_functional(e.elt, sub, fv)
        if not ctx.spec:
            # the element-wise facts were assumed for the skolem index only: drop the range assumption
            # (facts derived under it stay, they are implications of the skolem being in range)
            pass
        j = z3.Int("j!cm")
        body = z3.simplify(z3.substitute(val.t, (idx, j)))
        newarr = z3.Lambda([j], body)
        # assumptions made while evaluating the element (contract posts of pure calls) mention idx:
        # generalise them
        new_assumptions = fv.pc[saved_pc + 1:]
        del fv.pc[saved_pc:]
        rng_j = z3.And(j >= 0, j < n)
        for a in new_assumptions:
            if z3.is_true(a):
                continue
            if self.mentions(a, idx):
                fv.pc.append(z3.ForAll([j], z3.Implies(rng_j, z3.substitute(a, (idx, j)))))
            else:
                fv.pc.append(a)
        # drop the bare range assumption generalised to a tautology-free form
        if ctx.spec:
            return V(("listval", val.ty), (n, newarr))
        return fv.new_list(val.ty, n, newarr, "comp")

    def mentions(self, expr, const):
        seen = set()
        todo = [expr]
        while todo:
            x = todo.pop()
            if x.get_id() in seen:
                continue
            seen.add(x.get_id())
            if z3.is_quantifier(x):
                todo.append(x.body())
                continue
            if x.eq(const):
                return True
            todo.extend(x.children())
        return False

    def elem_wf(self, item, heap, fv):
        k = item.kind()
        if k in ("ref", "list"):
            facts = [item.t != NULL, birth(item.t) < heap.now]
            if k == "ref" and item.ty[1] in self.prog.classes:
                facts.append(fv.subclass_cond(item.t, item.ty[1]))
            return conj(facts)
        return z3.BoolVal(True)

    def eval_functional(self, node, ctx, fv):
        """Evaluate an element expression of a map comprehension: it must not fork or allocate."""
        trace_len = len(fv.trace)
        now = fv.heap.now
        probe = next(fv.ctr)
        v = fv.eval(node, ctx)
        if len(fv.trace) != trace_len and any(alt for (_v, alt) in fv.trace[trace_len:]):
            raise VCError(f"comprehension element forks at {fv.where(node)}")
        # the element must be a *function of the index*: no constant created while evaluating it may occur in it
        if v.kind() not in ("tuple", "none") and z3.is_expr(v.t):
            todo, seen = [v.t], set()
            while todo:
                x = todo.pop()
                if x.get_id() in seen:
                    continue
                seen.add(x.get_id())
                if z3.is_quantifier(x):
                    todo.append(x.body())
                    continue
                if z3.is_app(x) and x.num_args() == 0 and x.decl().kind() == z3.Z3_OP_UNINTERPRETED:
                    n = x.decl().name()
                    if "!" in n:
                        suffix = n.rsplit("!", 1)[1]
                        if suffix.isdigit() and int(suffix) > probe and not n.startswith("ci!"):
                            raise VCError(f"comprehension element uses a fresh value ({n}) at {fv.where(node)}: "
                                          f"the callee needs a `returns` clause")
                todo.extend(x.children())
        return v

    def is_range_call(self, it):
        return isinstance(it, ast.Call) and isinstance(it.func, ast.Name) and it.func.id == "range"

    def filter_comprehension(self, e, g, ctx, fv):
        ordinal = fv.loop_ordinal(e)
        spec = fv.contract.loops.get(ordinal)
        if spec is None:
            raise VCError(f"{fv.label}: filter comprehension (loop {ordinal}) at {fv.where(e)} needs an invariant")
        out_name = f"_out"
        # elem type
        if spec.elem is not None:
            ety = parse_type(spec.elem)
        else:
            if self.is_range_call(g.iter):
                raise VCError("filter comprehension over range needs elem= in its Loop")
            src = fv.eval(g.iter, ctx)
            ety = src.ty[1]
        saved = fv.env.get(out_name)
        fv.env[out_name] = fv.new_list(ety, z3.IntVal(0), None, "fcomp")
        cond = g.ifs[0] if len(g.ifs) == 1 else ast.BoolOp(op=ast.And(), values=list(g.ifs))
        app = ast.Expr(value=ast.Call(func=ast.Attribute(value=ast.Name(id=out_name, ctx=ast.Load()), attr="append",
                                                         ctx=ast.Load()), args=[e.elt], keywords=[]))
        loop = ast.For(target=g.target, iter=g.iter, body=[ast.If(test=cond, body=[app], orelse=[])], orelse=[])
        ast.copy_location(loop, e)
        ast.fix_missing_locations(loop)
        self.loop_ordinals(fv.func)[id(loop)] = ordinal
        fv.exec_for(loop)
        res = fv.env[out_name]
        if saved is not None:
            fv.env[out_name] = saved
        else:
            del fv.env[out_name]
        return res

    # ------------------------------------------------------------ calls
    def call(self, e, ctx, fv):
        f = e.func
        # ---- spec-only vocabulary
        if isinstance(f, ast.Name):
            name = f.id
            h = getattr(self, "bi_" + name, None)
            if name in self.specs and (ctx.spec or name not in ("len",)):
                args = [fv.eval(a, ctx) for a in e.args]
                return self.apply_spec(name, args, ctx, fv)
            if name in self.lemmas and ctx.spec:
                return self.use_lemma(name, [fv.eval(a, ctx) for a in e.args], ctx, fv)
            if h is not None:
                return h(e, ctx, fv)
            if name in self.prog.classes:
                return self.construct(name, e, ctx, fv)
            fi = self.prog.functions.get(f"{fv.func.module}:{name}")
            if fi is None:
                for k, cand in self.prog.functions.items():
                    if cand.cls is None and cand.name == name:
                        fi = cand
            if fi is not None:
                args, kwargs = self.eval_args(e, ctx, fv)
                if ctx.spec:
                    return self.call_in_spec(fi, args, kwargs, ctx, fv, e)
                return fv.call_function(fi, args, kwargs, e)
            if f"ext:{name}" in self.contracts:
                args, kwargs = self.eval_args(e, ctx, fv)
                return self.call_external(f"ext:{name}", None, args, kwargs, e, ctx, fv)
            v = ctx.env.get(name)
            if v is not None and v.kind() == "callable":
                return self.call_value(v, e, ctx, fv)
            raise VCError(f"call to unknown function {name} at {fv.where(e)}")
        if isinstance(f, ast.Attribute):
            # super().__init__(...)
            if isinstance(f.value, ast.Call) and isinstance(f.value.func, ast.Name) and f.value.func.id == "super":
                return self.super_call(e, ctx, fv)
            base = fv.eval(f.value, ctx)
            return self.call_method(base, f.attr, e, ctx, fv)
        if isinstance(f, ast.Call):
            # getattr(self, f"process_{x}")(a, b)
            target = fv.eval(f, ctx)
            return self.call_value(target, e, ctx, fv)
        raise VCError(f"call form not supported at {fv.where(e)}")

    def eval_args(self, e, ctx, fv):
        args = []
        for a in e.args:
            if isinstance(a, ast.Starred):
                inner = fv.eval(a.value, ctx)
                if inner.kind() == "tuple":
                    args.extend(inner.t)
                else:
                    args.append(V("starred", inner))
            else:
                args.append(fv.eval(a, ctx))
        kwargs = {kw.arg: fv.eval(kw.value, ctx) for kw in e.keywords}
        return args, kwargs

    def call_in_spec(self, fi, args, kwargs, ctx, fv, node):
        """A program function used inside a spec: allowed when its contract has a `returns` expression."""
        c = self.contract_for(fi)
        if c is None or c.returns is None:
            raise VCError(f"{fi.key} used in a spec but has no `returns` clause")
        ptypes = self.param_types(fi)
        bound = fv.bind_args(fi, ptypes, args, kwargs, node)
        return fv.eval(c.returns, Ctx(bound, ctx.heap, spec=True, fuel=ctx.fuel))

    def call_value(self, v, e, ctx, fv):
        kind = v.t[0]
        if kind == "method":
            _, obj, mname = v.t
            return self.call_method(obj, mname, e, ctx, fv)
        if kind == "dispatch":
            return self.call_dispatch(v, e, ctx, fv)
        raise VCError(f"cannot call {v.t[0]} at {fv.where(e)}")

    def super_call(self, e, ctx, fv):
        mname = e.func.attr
        cur = fv.func.cls.name
        mro = self.prog.mro(cur)
        for c in mro[1:]:
            ci = self.prog.classes.get(c)
            if ci is not None and mname in ci.methods:
                args, kwargs = self.eval_args(e, ctx, fv)
                return fv.call_function(ci.methods[mname], [fv.env["self"]] + args, kwargs, e)
        if mname == "__init__":
            return NONE       # object.__init__ / external base
        raise VCError(f"super().{mname} not found")

    def construct(self, cname, e, ctx, fv):
        if ctx.spec:
            raise VCError(f"constructor {cname}() in a spec")
        ci = self.prog.classes[cname]
        args, kwargs = self.eval_args(e, ctx, fv)
        r = fv.alloc(cname.lower(), cname)
        obj = mk_ref(r, cname, exact=True)
        init = self.prog.find_method(cname, "__init__")
        if init is not None:
            # class attributes shine through fresh instances
            self.init_class_attrs(obj, cname, fv)
            fv.call_function(init, [obj] + args, kwargs, e)
            return obj
        if ci.is_dataclass or any(self.prog.classes.get(b) and self.prog.classes[b].is_dataclass for b in self.prog.mro(cname)):
            if self.prog.find_method(cname, "__post_init__") is not None:
                raise VCError(f"dataclass {cname} defines __post_init__: its generated constructor is outside the subset")
            fields = self.prog.dataclass_fields(cname)
            names = [f[0] for f in fields]
            vals = {}
            for i, a in enumerate(args):
                if i >= len(names):
                    raise RaiseSig("TypeError", fv.where(e))
                vals[names[i]] = a
            for k, v in kwargs.items():
                vals[k] = v
            for (n, ann, dflt, decl) in fields:
                if n not in vals:
                    if dflt is None:
                        raise RaiseSig("TypeError", fv.where(e))
                    vals[n] = self.dataclass_default(dflt, fv)
                # generated dataclass __init__: self.<n> = <n>; fresh object, so reveal instead of store
                fkey, fty = self.field_key(cname, n)
                val = fv.coerce(vals[n], fty, e)
                fv.reveal(fkey, sort_of(fty), obj.t, val.t)
                if isinstance(fty, tuple) and fty[0] == "opt":
                    fv.reveal(fkey + "?", BoolS, obj.t, val.aux)
            fv.world.note_callee(fv.label, f"dataclass:{cname}")
            return obj
        if all(b not in self.prog.classes for b in ci.bases):
            return obj          # plain subclass of a library class (e.g. an exception type): nothing to initialise
        raise VCError(f"class {cname} has no __init__ and is no dataclass")

    def dataclass_default(self, d, fv):
        if isinstance(d, ast.Constant):
            return fv.eval(d, Ctx({}, fv.heap))
        if isinstance(d, ast.Call) and getattr(d.func, "id", "") == "field":
            for kw in d.keywords:
                if kw.arg == "default_factory" and isinstance(kw.value, ast.Lambda):
                    return fv.eval(kw.value.body, Ctx({}, fv.heap))
        raise VCError("dataclass default not supported")

    def init_class_attrs(self, obj, cname, fv):
        for c in self.prog.mro(cname):
            ci = self.prog.classes.get(c)
            if ci is None:
                continue
            for attr, (ann, val) in ci.class_attrs.items():
                if ann is None:
                    continue
                d = self.declared_field(cname, attr)
                if d is not None and isinstance(val, ast.List):
                    l, _ = self.class_attr_list(f"{c}.{attr}", fv)
                    fv.store_field(obj, attr, l, None)

    # ---- methods
    def call_method(self, base, mname, e, ctx, fv):
        k = base.kind()
        if k == "str":
            return self.str_method(base, mname, e, ctx, fv)
        if k in ("list", "listval"):
            return self.list_method(base, mname, e, ctx, fv)
        if k == "module":
            return self.module_call(base.t + "." + mname, e, ctx, fv)
        if k == "file":
            if mname == "write":
                arg = fv.eval(e.args[0], ctx)
                return self.call_external("ext:file.write", None, [V("str", base.t), arg], {}, e, ctx, fv)
        if k == "class":
            fi = self.prog.find_method(base.t, mname)
            if fi is not None and fi.is_static:
                args, kwargs = self.eval_args(e, ctx, fv)
                if ctx.spec:
                    return self.call_in_spec(fi, args, kwargs, ctx, fv, e)
                return fv.call_function(fi, args, kwargs, e)
            raise VCError(f"call {base.t}.{mname} not supported")
        if k == "ref":
            cname = base.ty[1]
            args, kwargs = self.eval_args(e, ctx, fv)
            if cname in self.prog.classes:
                m = self.prog.find_method(cname, mname)
                if m is None:
                    raise VCError(f"{cname} has no method {mname} at {fv.where(e)}")
                if ctx.spec:
                    return self.call_in_spec(m, [base] + args, kwargs, ctx, fv, e)
                overridden = [c for c in self.prog.subclasses(cname) if c != cname and
                              self.prog.find_method(c, mname) is not m]
                if base.exact or not overridden:
                    return fv.call_function(m, [base] + args, kwargs, e)
                return fv.call_dynamic(base, mname, args, kwargs, e)
            ext = self.external_attr(cname, mname)
            if ext is not None:
                return self.call_external(ext.key, base, args, kwargs, e, ctx, fv)
            if cname is None and not ctx.spec:
                return fv.call_dynamic(base, mname, args, kwargs, e)
            raise VCError(f"no contract for external method {cname}.{mname} at {fv.where(e)}")
        if k == "opt" and not ctx.spec:
            # method call on an Optional[str]: AttributeError when None
            if fv.choose(base.aux):
                raise RaiseSig("AttributeError", fv.where(e))
            return self.call_method(V(base.ty[1], base.t), mname, e, ctx, fv)
        raise VCError(f"method {mname} on {base.ty} not supported at {fv.where(e)}")

    def call_external(self, key, recv, args, kwargs, e, ctx, fv):
        c = self.contracts[key]
        fv.world.note_callee(fv.label, key)
        pnames = c.types.get("_params", [])
        bound = {}
        if recv is not None:
            bound["self"] = recv
        for i, a in enumerate(args):
            if i < len(pnames):
                bound[pnames[i]] = a
            else:
                raise VCError(f"{key}: too many arguments at {fv.where(e)}")
        for kname, v in kwargs.items():
            bound[kname] = v
        for n in pnames:
            if n not in bound:
                d = c.types.get("_defaults", {}).get(n, "__missing__")
                if d == "__missing__":
                    raise VCError(f"{key}: missing argument {n} at {fv.where(e)}")
                bound[n] = fv.eval(ast.parse(repr(d), mode="eval").body, Ctx({}, ctx.heap, spec=True))
        for n in list(bound):
            if bound[n].kind() == "module":
                # a library object named by its dotted path (pathspec.patterns.GitWildMatchPattern): its name as a string
                bound[n] = mk_str(bound[n].t)
            if n in c.types and bound[n].kind() not in ("tuple", "starred"):
                bound[n] = fv.coerce(bound[n], parse_type(c.types[n]), e, spec=ctx.spec)
        sctx = Ctx(bound, ctx.heap, spec=True, fuel=ctx.fuel)
        if str(c.types.get("return", "")).startswith("iter:"):
            # a lazy iterator (os.walk): nothing happens at the call; each loop iteration asks `ext:<name>.next`
            if ctx.spec:
                raise VCError(f"{key} (an iterator) used in a spec")
            for i, clause in enumerate(c.requires_clauses()):
                fv.oblige(fv.eval_spec_bool(clause, sctx), "pre", f"{key}.{i}", fv.where(e))
            return V(("extiter", c.types["return"][5:]), dict(bound))
        if c.returns is not None and (ctx.spec or not c.modifies):
            if not ctx.spec:
                for i, clause in enumerate(c.requires_clauses()):
                    fv.oblige(fv.eval_spec_bool(clause, sctx), "pre", f"{key}.{i}", fv.where(e))
                for exc, cond_ast in c.raises.items():
                    cond = fv.eval_spec_bool(cond_ast, sctx)
                    if fv.choose(cond):
                        raise RaiseSig(exc, fv.where(e))
            res = fv.eval(c.returns, sctx)
            rty = parse_type(c.types["return"]) if "return" in c.types else None
            if rty is not None:
                res = fv.coerce(res, rty, e, spec=True)
            if not ctx.spec:
                post = Ctx(bound, ctx.heap, spec=True, old=sctx, result=res, fuel=ctx.fuel)
                fv.soft_mode = True
                try:
                    for label, clause in c.ensures_clauses(caller=True):
                        fv.assume(fv.eval_spec_bool(clause, post))
                finally:
                    fv.soft_mode = False
            return res
        if ctx.spec:
            raise VCError(f"{key} used in a spec but has no `returns` clause")
        # general external: pre, havoc, post
        for i, clause in enumerate(c.requires_clauses()):
            fv.oblige(fv.eval_spec_bool(clause, sctx), "pre", f"{key}.{i}", fv.where(e))
        old_heap = fv.heap.copy()
        old_ctx = Ctx(dict(bound), old_heap, spec=True)
        fv.havoc_heap(c.modifies, bound, old_heap)
        nn = z3.Int(f"now!{next(fv.ctr)}")
        fv.assume(nn >= fv.heap.now)
        fv.heap.now = nn
        for exc, cond_ast in c.raises.items():
            cond = fv.eval_spec_bool(cond_ast, Ctx(bound, fv.heap, spec=True, old=old_ctx))
            if c.raises_exact:
                if fv.choose(cond):
                    raise RaiseSig(exc, fv.where(e))
            else:
                may = z3.Bool(f"raises!{next(fv.ctr)}")
                if fv.choose(z3.And(cond, may)):
                    raise RaiseSig(exc, fv.where(e))
        res = NONE
        if "return" in c.types and c.types["return"] != "none":
            res = fv.fresh(parse_type(c.types["return"]), "x_" + key.split(":")[-1].replace(".", "_"))
            if c.result_exact:
                res.exact = True
                fv.assume(typeof(res.t) == self.class_id(res.ty[1]))
            fv.assume_result_wf(res)
        post = Ctx(bound, fv.heap, spec=True, old=old_ctx, result=res)
        fv.soft_mode = True
        try:
            for label, clause in c.ensures_clauses(caller=True):
                fv.assume(fv.eval_spec_bool(clause, post))
        finally:
            fv.soft_mode = False
        return res

    def ext_next(self, it, k, node, fv):
        """one step of an external iterator: fresh values (fresh lists) constrained by the `next` contract; the
        iterator's own arguments and the step number `_k` are visible to that contract"""
        key = f"ext:{it.ty[1]}.next"
        c = self.contracts.get(key)
        if c is None:
            raise VCError(f"no contract {key}")
        self.note_callee(fv.label, key)
        bound = dict(it.t)
        bound["_k"] = mk_int(k)
        vals = []
        for item in c.types["_yields"]:
            name, ty = item.split(":", 1)
            pty = parse_type(ty)
            if isinstance(pty, tuple) and pty[0] == "list":
                n = z3.Int(f"y_{name}_len!{next(fv.ctr)}")
                fv.assume(n >= 0)
                fv.mark_nonneg(n)
                arr = z3.Const(f"y_{name}_arr!{next(fv.ctr)}", z3.ArraySort(IntS, E.sort_of(pty[1])))
                v = fv.new_list(pty[1], n, arr, "y_" + name)
            else:
                v = fv.fresh(pty, "y_" + name)
            bound[name] = v
            vals.append(v)
        post = Ctx(bound, fv.heap, spec=True)
        fv.soft_mode = True
        try:
            for label, clause in c.ensures_clauses(caller=True):
                fv.assume(fv.eval_spec_bool(clause, post))
        finally:
            fv.soft_mode = False
        return V("tuple", vals) if len(vals) > 1 else vals[0]

    def module_call(self, name, e, ctx, fv):
        key = "ext:" + name
        if name.startswith("logger.") or name.startswith("logging."):
            self.dropped.add("logging call")
            return NONE
        if name == "copy.copy" and len(e.args) == 1:
            v = fv.eval(e.args[0], ctx)
            if v.kind() in ("list", "listval"):
                # shallow copy of a list: a new list object with the same items
                n, arr, ety = fv.as_listval(v, ctx)
                return fv.new_list(ety, n, arr, "listcopy")
            if v.kind() == "ref" and v.ty[1] in self.prog.classes:
                # shallow copy of an object: a new object of the same class whose fields hold the SAME values
                # (nested objects and lists are shared with the original)
                cname = v.ty[1]
                r = fv.alloc(cname.lower() + "_copy", cname)
                obj = mk_ref(r, cname, exact=True)
                fv.assume(typeof(r) == typeof(v.t))
                for (fkey, fty) in self.all_fields_of(cname):
                    attr = fkey.split(".", 1)[1] if "." in fkey else fkey
                    arr = fv.heap.get(fkey, sort_of(fty))
                    fv.reveal(fkey, sort_of(fty), r, fv.sel(arr, v.t, fkey))
                    if isinstance(fty, tuple) and fty[0] == "opt":
                        arr2 = fv.heap.get(fkey + "?", BoolS)
                        fv.reveal(fkey + "?", BoolS, r, fv.sel(arr2, v.t, fkey + "?"))
                return obj
            raise VCError(f"copy.copy of {v.ty} not supported at {fv.where(e)}")
        if key not in self.contracts:
            raise VCError(f"no contract for external {name} at {fv.where(e)}")
        args, kwargs = self.eval_args(e, ctx, fv)
        return self.call_external(key, None, args, kwargs, e, ctx, fv)

    # ---- string methods (T-STRLIB models; the same contracts are evaluated natively on real runs as a cross-check)
    def str_method(self, s, m, e, ctx, fv):
        args = [fv.eval(a, ctx) for a in e.args]
        t = s.t
        if m in ("lstrip", "rstrip", "strip"):
            cs_name = None
            if args:
                if not z3.is_string_value(args[0].t):
                    raise VCError("strip with a non-literal character set")
                cs_name = "".join(sorted(set(args[0].t.as_string())))
                cs = E.re_charset(list(cs_name))
            else:
                cs = E.re_ws()
            res = t
            if m in ("lstrip", "strip"):
                res = self.strip_side(res, cs, True, fv, cs_name)
            if m in ("rstrip", "strip"):
                res = self.strip_side(res, cs, False, fv, cs_name)
            return mk_str(res)
        if m == "startswith":
            return mk_bool(z3.PrefixOf(args[0].t, t))
        if m == "endswith":
            return mk_bool(z3.SuffixOf(args[0].t, t))
        if m == "lower":
            return mk_str(E.py_lower(t))
        if m == "upper":
            return mk_str(E.py_upper(t))
        if m == "replace":
            return mk_str(E.z3_replace_all(t, args[0].t, args[1].t))
        if m == "split":
            if len(args) != 1:
                raise VCError("split() without separator not supported")
            sep = args[0].t
            n = E.split_len(t, sep)
            fv.assume(n >= 1)
            j = z3.Int("j!sp")
            arr = z3.Lambda([j], E.split_at(t, sep, j))
            if ctx.spec:
                return V(("listval", "str"), (n, arr))
            return fv.new_list("str", n, arr, "split")
        if m == "join":
            n, arr, ety = fv.as_listval(args[0], ctx)
            if arr is None:
                return mk_str("")
            return self.apply_spec("join", [s, V(("listval", "str"), (n, arr))], ctx, fv)
        raise VCError(f"str method {m} not supported at {fv.where(e)}")

    def strip_side(self, t, cs, left, fv, cs_name=None):
        """l/rstrip as a *function* of (string, character set): result r and stripped part p are applications of
        uninterpreted symbols, constrained by the defining decomposition (unique, so this is a definition)."""
        tag = ("l" if left else "r") + "strip"
        key = z3.StringVal(cs_name if cs_name is not None else "<ws>")
        fr = z3.Function("py_" + tag, StrS, StrS, StrS)
        fp = z3.Function("py_" + tag + "_cut", StrS, StrS, StrS)
        p = fp(t, key)
        r = fr(t, key)
        if not getattr(fv, "reveal_strip", False):
            # opaque by default: the defining decomposition is only added where a contract asks for it
            # (strip_def(...)), obligations that merely compare two applications do not need it
            return r
        if left:
            fv.assume(z3.And(t == z3.Concat(p, r), z3.InRe(p, z3.Star(cs)),
                             z3.Or(r == z3.StringVal(""), z3.Not(z3.InRe(z3.SubString(r, 0, 1), cs)))))
        else:
            fv.assume(z3.And(t == z3.Concat(r, p), z3.InRe(p, z3.Star(cs)),
                             z3.Or(r == z3.StringVal(""),
                                   z3.Not(z3.InRe(z3.SubString(r, z3.Length(r) - 1, 1), cs)))))
        return r

    # ---- list methods
    def list_method(self, l, m, e, ctx, fv):
        args = [fv.eval(a, ctx) for a in e.args]
        if ctx.spec:
            raise VCError(f"list method {m} in a spec")
        heap = fv.heap
        n = fv.list_len(l, heap)
        if m == "append":
            if l.ty[1] == "?":
                l.ty = ("list", self.storage_type(args[0]))
                fv.assume(E.lkind(l.t) == E.lkind_of(l.ty[1]))
                fv._lkind_tag[l.t.get_id()] = E.lkind_of(l.ty[1])
            fv.list_store(l, n, args[0])
            fv.set_list_len(l, n + 1)
            return NONE
        if m == "extend":
            src = args[0]
            if l.ty[1] == "?":
                l.ty = ("list", src.ty[1])
            n2, a2, _ = fv.as_listval(src, ctx)
            a1 = fv.list_arr(l, heap)
            i = z3.Int("i!ex")
            fv.set_list_arr(l, z3.Lambda([i], z3.If(i < n, z3.Select(a1, i), z3.Select(a2, i - n))))
            fv.set_list_len(l, n + n2)
            return NONE
        if m == "insert":
            pos = args[0].t
            if not (z3.is_int_value(pos) and pos.as_long() == 0):
                raise VCError("list.insert only at index 0")
            a1 = fv.list_arr(l, heap)
            v = fv.coerce(args[1], l.ty[1])
            i = z3.Int("i!ins")
            # a fresh array defined pointwise (a quantified definition is more robust for z3 than a lambda here)
            na = z3.Const(f"ins_arr!{next(fv.ctr)}", a1.sort())
            fv.assume(z3.Select(na, 0) == v.t)
            fv.assume(z3.ForAll([i], z3.Implies(i >= 1, z3.Select(na, i) == z3.Select(a1, i - 1)),
                                patterns=[z3.Select(na, i)]))
            fv.set_list_arr(l, na)
            fv.set_list_len(l, n + 1)
            return NONE
        if m == "pop":
            if args:
                raise VCError("list.pop(i) not supported")
            if not fv.choose(n > 0, exc_branch=False):
                raise RaiseSig("IndexError", fv.where(e))
            v = fv.list_get(l, n - 1, heap)
            fv.set_list_len(l, n - 1)
            return v
        if m == "remove":
            x = fv.coerce(args[0], l.ty[1])
            a1 = fv.list_arr(l, heap)
            present = self.list_contains(a1, n, x, l.ty[1], ctx, fv)
            if not fv.choose(present, exc_branch=False):
                raise RaiseSig("ValueError", fv.where(e))
            k = z3.Int(f"rm_k!{next(fv.ctr)}")
            j = z3.Int("j!rm")
            fv.assume(z3.And(k >= 0, k < n, z3.Select(a1, k) == x.t,
                             z3.ForAll([j], z3.Implies(z3.And(j >= 0, j < k), z3.Select(a1, j) != x.t))))
            i = z3.Int("i!rm")
            # a fresh array defined pointwise (as for insert: more robust for z3 than a lambda)
            na = z3.Const(f"rm_arr!{next(fv.ctr)}", a1.sort())
            fv.assume(z3.ForAll([i], z3.Select(na, i) == z3.If(i < k, z3.Select(a1, i), z3.Select(a1, i + 1)),
                                patterns=[z3.Select(na, i)]))
            fv.set_list_arr(l, na)
            fv.set_list_len(l, n - 1)
            fv.env["_rm_k"] = mk_int(k)
            return NONE
        raise VCError(f"list method {m} not supported at {fv.where(e)}")

    def storage_type(self, v):
        if v.kind() in ("ref",):
            return ("ref", v.ty[1])
        return v.ty

    # ---- builtins (code + spec)
    def bi_len(self, e, ctx, fv):
        v = fv.eval(e.args[0], ctx)
        k = v.kind()
        if k == "str":
            return mk_int(z3.Length(v.t))
        if k == "list":
            return mk_int(fv.list_len(v, ctx.heap))
        if k == "listval":
            return mk_int(v.t[0])
        if k == "tuple":
            return mk_int(len(v.t))
        raise VCError(f"len of {v.ty} at {fv.where(e)}")

    def bi_str(self, e, ctx, fv):
        v = fv.eval(e.args[0], ctx)
        return fv.to_str(v, ctx, e)

    def bi_isinstance(self, e, ctx, fv):
        v = fv.eval(e.args[0], ctx)
        cls = e.args[1]
        names = []
        for c in (cls.elts if isinstance(cls, ast.Tuple) else [cls]):
            names.append(c.id if isinstance(c, ast.Name) else c.attr)
        if names == ["str"]:
            return mk_bool(v.kind() == "str")
        if v.kind() == "none":
            return mk_bool(False)
        if v.kind() != "ref":
            raise VCError(f"isinstance on {v.ty} at {fv.where(e)}")
        ids = []
        for n in names:
            if n in self.prog.classes:
                ids += [self.class_id(c) for c in self.prog.subclasses(n)]
            else:
                ids.append(self.class_id(n))
                for c, info in self.ext_classes.items():
                    if n in self.ext_bases(c):
                        ids.append(self.class_id(c))
        return mk_bool(z3.And(v.t != NULL, z3.Or(*[typeof(v.t) == i for i in ids])))

    def bi_typeof(self, e, ctx, fv):
        """spec: typeof(x, "Class") - exact dynamic class"""
        v = fv.eval(e.args[0], ctx)
        return mk_bool(typeof(v.t) == self.class_id(e.args[1].value))

    def bi_cast(self, e, ctx, fv):
        """spec: cast(x, "Class") - static view of a reference as a class (no obligation: use under typeof/isinstance)"""
        v = fv.eval(e.args[0], ctx)
        return V(("ref", e.args[1].value), v.t, aux=v.aux)

    def bi_class_attr(self, e, ctx, fv):
        """spec: class_attr("Class.attr") - the list object bound to a class attribute; its contents are read
        from the class body of the real source (import-time value)."""
        key = e.args[0].value
        l, val = self.class_attr_list(key, fv)
        n = fv.list_len(l, ctx.heap)
        facts = [n == len(val.elts)]
        for i, x in enumerate(val.elts):
            facts.append(z3.Select(fv.list_arr(l, ctx.heap), i) == z3.StringVal(x.value))
        self.class_attr_facts = getattr(self, "class_attr_facts", {})
        self.class_attr_facts[key] = conj(facts)
        return l

    def bi_class_attr_intact(self, e, ctx, fv):
        """spec: the class attribute list still has its import-time contents (in the heap of this context)"""
        key = e.args[0].value
        l, val = self.class_attr_list(key, fv)
        n = fv.list_len(l, ctx.heap)
        facts = [n == len(val.elts)]
        for i, x in enumerate(val.elts):
            facts.append(z3.Select(fv.list_arr(l, ctx.heap), i) == z3.StringVal(x.value))
        return mk_bool(conj(facts))

    def bi_strip_def(self, e, ctx, fv):
        """spec: strip_def(s.lstrip(chars)) - evaluates its argument with the defining axioms of the strip
        functions switched on (the decomposition s = cut + rest, cut in chars*, rest not starting in chars)"""
        saved = getattr(fv, "reveal_strip", False)
        fv.reveal_strip = True
        try:
            fv.eval(e.args[0], ctx)
        finally:
            fv.reveal_strip = saved
        return mk_bool(True)

    def bi_newer(self, e, ctx, fv):
        """spec: newer(a, b) - object a was allocated after object b"""
        a = fv.eval(e.args[0], ctx)
        b = fv.eval(e.args[1], ctx)
        return mk_bool(birth(a.t) > birth(b.t))

    def bi_cur(self, e, ctx, fv):
        """spec: cur(old.x.y) - the same object, viewed in the current state"""
        v = fv.eval(e.args[0], ctx)
        return V(v.ty, v.t, exact=v.exact)

    def bi_only_chars(self, e, ctx, fv):
        """spec: only_chars(s, "abc") - every character of s is one of the given (literal) characters"""
        v = fv.eval(e.args[0], ctx)
        chars = e.args[1].value
        return mk_bool(z3.InRe(v.t, z3.Star(E.re_charset(list(chars)))))

    def bi_is_str_value(self, e, ctx, fv):
        v = fv.eval(e.args[0], ctx)
        if v.kind() == "dyn":
            return mk_bool(Dyn.is_dstr(v.t))
        return mk_bool(v.kind() == "str")

    def bi_is_enum_value(self, e, ctx, fv):
        v = fv.eval(e.args[0], ctx)
        if v.kind() == "dyn":
            return mk_bool(Dyn.is_denum(v.t))
        return mk_bool(v.kind() == "enum")

    def bi_fresh(self, e, ctx, fv):
        v = fv.eval(e.args[0], ctx)
        if ctx.old is None:
            raise VCError("fresh() outside a postcondition")
        return mk_bool(z3.And(v.t != NULL, birth(v.t) >= 0, birth(v.t) >= ctx.old.heap.now, birth(v.t) < ctx.heap.now))

    def bi_allocated(self, e, ctx, fv):
        v = fv.eval(e.args[0], ctx)
        return mk_bool(z3.And(v.t != NULL, birth(v.t) < ctx.heap.now))

    def bi_same(self, e, ctx, fv):
        a = fv.eval(e.args[0], ctx)
        b = fv.eval(e.args[1], ctx)
        if a.kind() == "none" or b.kind() == "none":
            return mk_bool(fv.equal(a, b, ctx, e, identity=True))
        return mk_bool(a.t == b.t)

    def bi_implies(self, e, ctx, fv):
        a = fv.eval_spec_bool(e.args[0], ctx)
        b = fv.eval_spec_bool(e.args[1], ctx)
        return mk_bool(z3.Implies(a, b))

    def bi_iff(self, e, ctx, fv):
        a = fv.eval_spec_bool(e.args[0], ctx)
        b = fv.eval_spec_bool(e.args[1], ctx)
        return mk_bool(a == b)

    def _quant(self, e, ctx, fv, universal):
        lo = fv.eval(e.args[0], ctx).t
        hi = fv.eval(e.args[1], ctx).t
        lam = e.args[2]
        if not isinstance(lam, ast.Lambda) or len(lam.args.args) != 1:
            raise VCError("forall/exists: third argument must be a one-parameter lambda")
        name = lam.args.args[0].arg
        q = z3.Int(f"{name}!q{next(fv.ctr)}")
        if fv.is_nonneg(lo):
            fv.mark_nonneg(q)
        env = dict(ctx.env)
        env[name] = mk_int(q)
        # recursive definitions stay folded under a quantifier: their ground instances are unfolded where the
        # clause mentions them outside the quantifier (keeps quantified facts small and free of nested axioms)
        sub = Ctx(env, ctx.heap, spec=True, old=ctx.old, result=ctx.result, fuel=0, entry=ctx.entry)
        saved = len(fv.pc)
        body = fv.eval_spec_bool(lam.body, sub)
        # definitional facts generated inside the body (spec unfoldings) mention q: generalise them
        new = fv.pc[saved:]
        del fv.pc[saved:]
        for a in new:
            if self.mentions(a, q):
                fv.pc.append(z3.ForAll([q], z3.Implies(z3.And(q >= lo, q < hi), a)))
            else:
                fv.pc.append(a)
        rng = z3.And(q >= lo, q < hi)
        pats = []
        for kw in e.keywords:
            if kw.arg == "pattern":
                # explicit trigger (a term over the bound variable): instantiation only where that term occurs -
                # used to keep pairs of quantified facts from feeding each other new terms (matching loops)
                pl = kw.value
                penv = dict(env)
                penv[pl.args.args[0].arg] = mk_int(q)
                pv = fv.eval(pl.body, Ctx(penv, ctx.heap, spec=True, old=ctx.old, result=ctx.result, fuel=0,
                                          entry=ctx.entry))
                pats.append(pv.t)
        if universal:
            if pats:
                return mk_bool(z3.ForAll([q], z3.Implies(rng, body), patterns=pats))
            return mk_bool(z3.ForAll([q], z3.Implies(rng, body)))
        return mk_bool(z3.Exists([q], z3.And(rng, body)))

    def bi_distinct_strs(self, e, ctx, fv):
        """spec: the entries of a list of str are pairwise different (one quantifier over index pairs, with the two
        reads as a multi-pattern)"""
        v = fv.eval(e.args[0], ctx)
        n, arr, ety = fv.as_listval(v, ctx)
        if arr is None:
            return mk_bool(True)
        i = z3.Int(f"di!{next(fv.ctr)}")
        j = z3.Int(f"dj!{next(fv.ctr)}")
        if getattr(fv, "proving", False):
            # as a goal: no two positions hold the same string
            return mk_bool(z3.ForAll([i, j], z3.Implies(z3.And(i >= 0, i < j, j < n),
                                                        z3.Select(arr, i) != z3.Select(arr, j))))
        # as an assumption (use it positively only): an index function inverts the list - equivalent to pairwise
        # difference, but instantiated once per read instead of once per pair of reads
        didx = z3.Function("distinct_idx", arr.sort(), StrS, IntS)
        return mk_bool(z3.ForAll([i], z3.Implies(z3.And(i >= 0, i < n), didx(arr, z3.Select(arr, i)) == i),
                                 patterns=[z3.Select(arr, i)]))

    def bi_forall(self, e, ctx, fv):
        return self._quant(e, ctx, fv, True)

    def bi_exists(self, e, ctx, fv):
        return self._quant(e, ctx, fv, False)

    def bi_hint(self, e, ctx, fv):
        """spec: hint(expr) - true; evaluating expr makes the definitions of the (opaque / recursive) spec functions
        it applies available for exactly these arguments"""
        fv.eval(e.args[0], Ctx(ctx.env, ctx.heap, spec=True, old=ctx.old, result=ctx.result, fuel=max(ctx.fuel, 1),
                               entry=ctx.entry))
        return mk_bool(True)

    def bi_forall_str(self, e, ctx, fv):
        """forall_str(lambda p: P(p)) - over all strings (only in trusted contracts of library objects: an object
        that behaves like a function of a string, e.g. a compiled PathSpec)"""
        lam = e.args[0]
        name = lam.args.args[0].arg
        q = z3.Const(f"{name}!q{next(fv.ctr)}", StrS)
        env = dict(ctx.env)
        env[name] = mk_str(q)
        sub = Ctx(env, ctx.heap, spec=True, old=ctx.old, result=ctx.result, fuel=0, entry=ctx.entry)
        body = fv.eval_spec_bool(lam.body, sub)
        return mk_bool(z3.ForAll([q], body))

    def bi_forall_ref(self, e, ctx, fv):
        """forall_ref(lambda r: P(r)) - over all allocated objects (used for global frame statements)"""
        lam = e.args[0]
        name = lam.args.args[0].arg
        q = z3.Const(f"{name}!q{next(fv.ctr)}", Ref)
        cls = e.args[1].value if len(e.args) > 1 else None
        env = dict(ctx.env)
        env[name] = mk_ref(q, cls)
        sub = Ctx(env, ctx.heap, spec=True, old=ctx.old, result=ctx.result, fuel=ctx.fuel, entry=ctx.entry)
        body = fv.eval_spec_bool(lam.body, sub)
        return mk_bool(z3.ForAll([q], body))

    def bi_range(self, e, ctx, fv):
        raise VCError("range() outside a for loop / comprehension")

    def bi_print(self, e, ctx, fv):
        args, kwargs = self.eval_args(e, ctx, fv)
        return self.call_external("ext:print", None, args, kwargs, e, ctx, fv)

    def bi_exit(self, e, ctx, fv):
        raise RaiseSig("SystemExit", fv.where(e))

    def bi_sorted(self, e, ctx, fv):
        v = fv.eval(e.args[0], ctx)
        n, arr, ety = fv.as_listval(v, ctx)
        if ety != "str":
            raise VCError("sorted() only on lists of str")
        sarr = E.sorted_arr(arr, n)
        if ctx.spec:
            return V(("listval", "str"), (n, sarr))
        # sorted(): ordered (str_le, the uninterpreted order of contracts/specs.py) and a permutation of the argument,
        # the permutation being given by two skolem functions that are inverse to each other
        le = lambda a, b: self.apply_spec("str_le", [mk_str(a), mk_str(b)], ctx, fv).t
        i = z3.Int("i!so")
        sp = z3.Function("sorted_src", arr.sort(), IntS, IntS, IntS)
        spi = z3.Function("sorted_pos", arr.sort(), IntS, IntS, IntS)
        rng = z3.And(i >= 0, i < n)
        fv.assume(z3.ForAll([i], z3.Implies(z3.And(i >= 0, i < n - 1), le(z3.Select(sarr, i), z3.Select(sarr, i + 1))),
                            patterns=[z3.Select(sarr, i)]))
        fv.assume(z3.ForAll([i], z3.Implies(rng, z3.And(sp(arr, n, i) >= 0, sp(arr, n, i) < n,
                                                        z3.Select(sarr, i) == z3.Select(arr, sp(arr, n, i)),
                                                        spi(arr, n, sp(arr, n, i)) == i)),
                            patterns=[z3.Select(sarr, i)]))
        fv.assume(z3.ForAll([i], z3.Implies(rng, z3.And(spi(arr, n, i) >= 0, spi(arr, n, i) < n,
                                                        z3.Select(arr, i) == z3.Select(sarr, spi(arr, n, i)),
                                                        sp(arr, n, spi(arr, n, i)) == i)),
                            patterns=[z3.Select(arr, i)]))
        return fv.new_list("str", n, sarr, "sorted")

    def bi_map(self, e, ctx, fv):
        f = e.args[0]
        if isinstance(f, ast.Name) and f.id == "str":
            v = fv.eval(e.args[1], ctx)
            if v.kind() == "tuple":
                return V("tuple", [fv.to_str(x, ctx, e) for x in v.t])
            n, arr, ety = fv.as_listval(v, ctx)
            if ety == "str":
                return V(("listval", "str"), (n, arr))
        raise VCError(f"map() form not supported at {fv.where(e)}")

    def bi_list(self, e, ctx, fv):
        v = fv.eval(e.args[0], ctx)
        n, arr, ety = fv.as_listval(v, ctx)
        if ctx.spec:
            return V(("listval", ety), (n, arr))
        return fv.new_list(ety, n, arr, "listcopy")

    def bi_hasattr(self, e, ctx, fv):
        v = fv.eval(e.args[0], ctx)
        return mk_bool(v.kind() == "file")

    def bi_dir(self, e, ctx, fv):
        v = fv.eval(e.args[0], ctx)
        cname = v.ty[1]
        names = set(self.prog.method_names(cname))
        ci = self.prog.classes[cname]
        for c in self.prog.mro(cname):
            cc = self.prog.classes.get(c)
            if cc is not None:
                names.update(n for (n, _a) in cc.init_fields)
        return V("strset", sorted(names))

    def bi_getattr(self, e, ctx, fv):
        obj = fv.eval(e.args[0], ctx)
        name = fv.eval(e.args[1], ctx)
        return V("callable", ("dispatch", obj, name))

    def call_dispatch(self, v, e, ctx, fv):
        """getattr(obj, <symbolic name>)(args): case split over the method names of obj's class."""
        _, obj, name = v.t
        cname = obj.ty[1]
        args, kwargs = self.eval_args(e, ctx, fv)
        names = sorted(self.prog.method_names(cname))
        cands = []
        for n in names:
            if fv.feasible(name.t == z3.StringVal(n)):
                cands.append(n)
        for n in cands:
            if fv.choose(name.t == z3.StringVal(n)):
                m = self.prog.find_method(cname, n)
                return fv.call_function(m, [obj] + args, kwargs, e)
        # not a method name: AttributeError
        raise RaiseSig("AttributeError", fv.where(e))

    def dict_lookup(self, base, idx, ctx, fv, e):
        """obj.__dict__[<symbolic key>] for a dataclass instance: case split over the instance's fields;
        KeyError when the key names no field"""
        obj = base.t[1]
        cname = obj.ty[1]
        names = [n for (n, _a, _d, _c) in self.prog.dataclass_fields(cname)]
        if ctx.spec:
            raise VCError("__dict__ lookup in a spec")
        for n in names:
            if fv.feasible(idx.t == z3.StringVal(n)):
                if fv.choose(idx.t == z3.StringVal(n)):
                    return fv.load_field(obj, n, ctx.heap, e)
        raise RaiseSig("KeyError", fv.where(e))

    # ------------------------------------------------------------ lemmas
    def use_lemma(self, name, args, ctx, fv):
        lm = self.lemmas[name]
        env = {}
        for (pn, pty), a in zip(lm.params, args):
            terms = self.spec_arg_terms(a, pty, ctx, fv)
            env[pn] = self.spec_value(terms, pty)
        sub = Ctx(env, ctx.heap, spec=True, fuel=ctx.fuel)
        if getattr(fv, "proving", False):
            # a lemma call in a clause that is being proved: its precondition is an obligation of its own,
            # then the conclusion is available (keeps each query small)
            for i, r in enumerate(lm.requires):
                fv.oblige(fv.eval_spec_bool(r, sub), "lemma-pre", f"{name}.{i}", lm.path)
            fv.soft_mode = True
            try:
                for r in lm.ensures:
                    fv.assume(fv.eval_spec_bool(r, sub))
            finally:
                fv.soft_mode = False
        else:
            pre = conj([fv.eval_spec_bool(r, sub) for r in lm.requires])
            post = conj([fv.eval_spec_bool(r, sub) for r in lm.ensures])
            fv.assume(z3.Implies(pre, post))
        self.used_trusted.setdefault(fv.label, set()).add(f"lemma:{name}" + (" (trusted)" if lm.trusted else ""))
        return mk_bool(True)
