"""Parallel generation of verification conditions.

Paths are explored by decision replay (engine.FunctionVerifier.run_one): a task is (function, receiver, decision
prefix); the worker executes that one path from the function's entry and puts the prefixes of the alternatives it
discovered beyond its own prefix back on the shared queue.  Every path is therefore executed exactly once, by some
worker, and every obligation is generated exactly once: by the path that first reaches it outside its replayed prefix.
Obligation and cover names are functions of the decision vector, so the result does not depend on the schedule."""
import multiprocessing as mp
import os
import queue
import time
import traceback

from .sv import VCError
from . import solve


def _serialise(fv, world, key, recv, cprops, pid, n_from):
    out = []
    for o in fv.obligations[n_from:]:
        skip = False
        for lab, ps in cprops.items():
            if f"#ensures.{lab}." in o.name or f"#ensures.{lab}/" in o.name or o.name.split("@")[0].endswith(f"#ensures.{lab}"):
                if pid is not None and pid not in ps:
                    skip = True
        if skip:
            continue
        out.append({"name": o.name, "kind": o.kind, "where": o.where, "trivial": o.trivial,
                    "smt2": None if o.trivial else o.smt2(), "func": fv.label,
                    "parts": [{"name": p.name, "smt2": p.smt2()} for p in (o.parts or [])]})
    return out


def _worker(load_world, qin, qout, pending, max_paths):
    from .engine import FunctionVerifier
    res = {}
    try:
        world = load_world()
        fvs = {}
        pid = os.environ.get("PYVC_PID")
        while True:
            try:
                task = qin.get(timeout=0.05)
            except queue.Empty:
                if pending.value <= 0:
                    break
                continue
            key, recv, prefix = task
            tk = (key, recv)
            r = res.setdefault(tk, {"obligations": [], "covers": [], "paths": 0, "gen_s": 0.0, "error": None,
                                    "internal": False, "label": f"{key}[{recv}]" if recv else key})
            new = []
            t0 = time.time()
            if r["error"] is None:
                try:
                    fv = fvs.get(tk)
                    if fv is None:
                        fv = fvs[tk] = FunctionVerifier(world, world.prog.functions[key], recv)
                        r["label"] = fv.label
                    n_ob, n_cv = len(fv.obligations), len(fv.covers)
                    if prefix is None:
                        # functions verified against a virtual contract: the sequential driver (small functions)
                        fv.run()
                        fv.obligations[:] = fv.run_virtual_check()
                        n_ob = 0
                        r["paths"] += fv.paths
                    else:
                        st0 = dict(fv.stat)
                        new = fv.run_one(prefix)
                        r["paths"] += 1
                        if os.environ.get("PYVC_TRACE"):
                            import sys
                            print(f"[path] {fv.label} dec={len(fv.trace)} new={len(new)} t={time.time()-t0:.1f}s "
                                  f"feas={fv.stat['feas']-st0['feas']}/{fv.stat['feas_s']-st0['feas_s']:.1f}s "
                                  f"full={fv.stat['full']-st0['full']}/{fv.stat['full_s']-st0['full_s']:.1f}s "
                                  f"obl={len(fv.obligations)-n_ob}", file=sys.stderr, flush=True)
                    r["obligations"].extend(_serialise(fv, world, key, recv, world.contracts[key].clause_props, pid, n_ob))
                    r["covers"].extend(solve.cover_tasks(fv.covers[n_cv:]))
                    del fv.obligations[:]
                    del fv.covers[:]
                except VCError as ex:
                    r["error"] = str(ex)
                    new = []
                except Exception as ex:
                    r["error"] = "internal: " + repr(ex) + "\n" + traceback.format_exc(limit=6)
                    r["internal"] = True
                    new = []
            r["gen_s"] += time.time() - t0
            with pending.get_lock():
                pending.value += len(new) - 1
            for p in new:
                qin.put((key, recv, p))
        for tk, r in res.items():
            fvl = r["label"]
            r["callees"] = sorted(world.callees.get(fvl, []))
            r["trusted"] = sorted(world.used_trusted.get(fvl, []))
        qout.put({"res": res, "dropped": sorted(world.dropped)})
    except BaseException as ex:     # never leave the parent waiting
        qout.put({"res": res, "dropped": [], "fatal": repr(ex) + "\n" + traceback.format_exc(limit=8)})


def generate(load_world, targets, procs=16, max_paths=6000):
    """targets: [(key, recv)] -> one result dict per target (same shape as before: ok, obligations, covers, ...)"""
    world = load_world()
    ctx = mp.get_context("fork")
    qin, qout = ctx.Queue(), ctx.Queue()
    pending = ctx.Value("i", 0)
    for (key, recv) in targets:
        fi = world.prog.functions[key]
        virtual = "virtual:" + fi.name in world.contracts
        with pending.get_lock():
            pending.value += 1
        qin.put((key, recv, None if virtual else []))
    n = max(1, min(procs, os.cpu_count() or 4))
    ps = [ctx.Process(target=_worker, args=(load_world, qin, qout, pending, max_paths)) for _ in range(n)]
    for p in ps:
        p.start()
    outs = []
    deadline = time.time() + 3 * 3600
    while len(outs) < n and time.time() < deadline:
        try:
            outs.append(qout.get(timeout=1.0))
        except queue.Empty:
            if not any(p.is_alive() for p in ps) and qout.empty():
                break
    for p in ps:
        p.join(timeout=5)
        if p.is_alive():
            p.terminate()
    fatal = [o["fatal"] for o in outs if "fatal" in o]
    dropped = sorted(set().union(*[set(o["dropped"]) for o in outs])) if outs else []
    results = []
    for (key, recv) in targets:
        tk = (key, recv)
        parts = [o["res"][tk] for o in outs if tk in o["res"]]
        label = parts[0]["label"] if parts else (f"{key}[{recv}]" if recv else key)
        err = next((p for p in parts if p["error"]), None)
        if len(outs) < n or fatal:
            results.append({"label": label, "key": key, "ok": False, "internal": True, "gen_s": 0.0,
                            "error": "internal: a generation worker failed: " + (fatal[0] if fatal else "no result")})
            continue
        if err is not None:
            results.append({"label": label, "key": key, "ok": False, "error": err["error"],
                            "internal": err["internal"], "gen_s": sum(p["gen_s"] for p in parts)})
            continue
        obs, seen = [], set()
        for p in parts:
            for o in p["obligations"]:
                if o["name"] in seen:
                    # the same decision vector reached the same clause twice: must not happen (each path runs once)
                    continue
                seen.add(o["name"])
                obs.append(o)
        covers = [c for p in parts for c in p["covers"]]
        paths = sum(p["paths"] for p in parts)
        if paths > max_paths:
            results.append({"label": label, "key": key, "ok": False, "error": f"{label}: more than {max_paths} paths",
                            "gen_s": sum(p["gen_s"] for p in parts)})
            continue
        results.append({"label": label, "key": key, "ok": True, "obligations": sorted(obs, key=lambda o: o["name"]),
                        "covers": sorted(covers, key=lambda c: c[0]), "paths": paths,
                        "gen_s": sum(p["gen_s"] for p in parts),
                        "callees": sorted(set().union(*[set(p.get("callees", [])) for p in parts])),
                        "trusted": sorted(set().union(*[set(p.get("trusted", [])) for p in parts])),
                        "dropped": dropped})
    return results
