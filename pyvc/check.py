"""Per-property check:  ./check <id> [--tier quick|thorough] [--replay file]

Decides one property by (1) regenerating every proof obligation of the contracts tagged with the property
from /repo's current source and discharging them, (2) guards against vacuity, (3) the labelled *bounded*
run-time evaluation of the same contracts on the real functions (fallback for undecided obligations, replay
vehicle for refuted ones, declared stand-in where no contract reaches).  Exit codes: 0 held, 1 violation,
2 undecided, 3 checker failure (DESIGN.md 2.9)."""
import importlib
import json
import multiprocessing as mp
import os
import sys
import time
import traceback

HERE = os.path.dirname(os.path.dirname(os.path.abspath(__file__)))
SRC = os.environ.get("CMINX_SRC", "/repo/src")
OUT = os.environ.get("VERIF_OUT", HERE)        # self-tests on scratch copies write their evidence/replays elsewhere

from .sv import VCError           # noqa: E402
from . import solve               # noqa: E402


def load_world():
    from .world import World
    return World(SRC, os.path.join(HERE, "contracts"))


def property_targets(world, pid):
    out = []
    for key, c in world.contracts.items():
        if key.startswith("ext:") or key.startswith("virtual:") or c.trusted:
            continue
        if pid not in c.props:
            continue
        fi = world.prog.functions.get(key)
        if fi is None:
            raise VCError(f"contract {key}: no such function in {SRC} (renamed or removed?)")
        for r in (c.receivers or [None]):
            out.append((key, r))
    return out


def _gen_one(task):
    key, recv = task
    t0 = time.time()
    try:
        from .engine import FunctionVerifier
        world = load_world()
        fi = world.prog.functions[key]
        fv = FunctionVerifier(world, fi, recv)
        obs = fv.run()
        if "virtual:" + fi.name in world.contracts:
            obs = fv.run_virtual_check()
        out = []
        cprops = world.contracts[key].clause_props
        pid = os.environ.get("PYVC_PID")
        for o in obs:
            skip = False
            for lab, ps in cprops.items():
                if f"#ensures.{lab}." in o.name or f"#ensures.{lab}/" in o.name or o.name.split("@")[0].endswith(f"#ensures.{lab}"):
                    if pid is not None and pid not in ps:
                        skip = True
            if skip:
                continue
            out.append({"name": o.name, "kind": o.kind, "where": o.where, "trivial": o.trivial,
                        "smt2": None if o.trivial else o.smt2(), "func": fv.label,
                        "parts": [{"name": p.name, "smt2": p.smt2()} for p in (o.parts or [])]})
        covers = solve.cover_tasks(fv.covers)
        return {"label": fv.label, "key": key, "ok": True, "obligations": out, "covers": covers, "paths": fv.paths,
                "gen_s": time.time() - t0, "callees": sorted(world.callees.get(fv.label, [])),
                "trusted": sorted(world.used_trusted.get(fv.label, [])), "dropped": sorted(world.dropped)}
    except VCError as ex:
        return {"label": f"{key}[{recv}]" if recv else key, "key": key, "ok": False, "error": str(ex),
                "gen_s": time.time() - t0}
    except Exception as ex:
        return {"label": f"{key}[{recv}]" if recv else key, "key": key, "ok": False,
                "error": "internal: " + repr(ex) + "\n" + traceback.format_exc(limit=6), "internal": True,
                "gen_s": time.time() - t0}


class Ob:
    def __init__(self, d):
        self.__dict__.update(d)

    def smt2(self):
        return self.__dict__["_smt2"]


def generate(targets, procs=16):
    """all paths of all target functions, explored by a pool of workers (pargen.py)"""
    from . import pargen
    return pargen.generate(load_world, targets, procs)


def discharge_all(gens, timeout_ms, quick=False):
    obs = []
    for g in gens:
        if not g["ok"]:
            continue
        for o in g["obligations"]:
            ob = Ob({"name": o["name"], "kind": o["kind"], "where": o["where"], "trivial": o["trivial"],
                     "_smt2": o["smt2"], "func": o["func"]})
            ob.parts = [Ob({"name": p["name"], "kind": o["kind"], "where": o["where"], "trivial": False,
                            "_smt2": p["smt2"], "func": o["func"]}) for p in o.get("parts", [])] or None
            obs.append(ob)
    if quick:
        res = solve._discharge_flat(obs, timeout_ms, None, want_model=False, quick=True)
    else:
        res = solve.discharge(obs, timeout_ms=timeout_ms)
    return obs, res


def check_covers(gens):
    tasks = []
    for g in gens:
        if g["ok"]:
            tasks.extend(g["covers"])
    return len(tasks), solve.run_cover_tasks(tasks)


# ---------------------------------------------------------------- bounded run-time part
def run_bounded(pid, tier, seed, keys):
    """Evaluate the contracts of `keys` natively on the real functions, driven by the property's drivers."""
    from . import runtime
    from .props import PROPS
    spec = PROPS[pid]
    mods = ["contracts." + os.path.basename(p)[:-3] for p in sorted(os.listdir(os.path.join(HERE, "contracts")))
            if p.endswith(".py") and not p.startswith("_")]
    if HERE not in sys.path:
        sys.path.insert(0, HERE)
    installed = runtime.install(mods)
    evaluations = 0
    driver_info = []
    extra_violations = []
    for dname in spec.get("drivers", []):
        mod = importlib.import_module("bounded." + dname)
        t0 = time.time()
        r = mod.run(seed, tier, runtime.STATS, pid)
        if isinstance(r, dict):
            evaluations += r.get("cases", 0)
            extra_violations.extend(r.get("violations", []))
            driver_info.append({"driver": dname, "cases": r.get("cases", 0), "distinct": r.get("distinct", 0),
                                "bound": r.get("bound", ""), "samples": r.get("samples", [])[:3],
                                "wall_s": round(time.time() - t0, 1)})
        else:
            evaluations += r
            driver_info.append({"driver": dname, "cases": r, "wall_s": round(time.time() - t0, 1)})
    st = runtime.STATS
    viol = [v for v in st.violations] + extra_violations
    return {"installed": installed, "cases": evaluations, "drivers": driver_info,
            "calls": dict(st.calls), "pre_ok": dict(st.pre_ok), "post_checked": dict(st.post_checked),
            "violations": viol, "errors": st.errors[:20], "n_errors": len(st.errors)}


# ---------------------------------------------------------------- known findings
def load_known():
    with open(os.path.join(HERE, "known_findings.json")) as f:
        return json.load(f)


def match_known(pid, item, known):
    """item: a failed obligation name or a runtime violation; -> the open finding it is, or None"""
    for k in known.get("open", []):
        if k["property"] != pid:
            continue
        m = k.get("match", {})
        if "obligation_contains" in m and isinstance(item, str):
            if all(x in item for x in m["obligation_contains"]):
                return k
        if "runtime" in m and isinstance(item, dict):
            ok = True
            for kk, vv in m["runtime"].items():
                if vv not in json.dumps(item.get(kk, ""), default=str):
                    ok = False
            if ok:
                return k
    return None


def clause_in_property(world, v, pid):
    """a run-time violation counts for a property if the violated function is tagged with it and the clause is not
    reserved for other properties"""
    import re
    m = re.match(r"^(C\d\d)\b", str(v.get("clause", "")))
    if m:
        # a violation found by a driver's own oracle is labelled with the property it decides (the drivers filter by
        # the property they run for): it counts whatever contract the named function carries
        return True
    c = world.contracts.get(v.get("function", ""))
    if c is None:
        return True
    if pid not in c.props:
        return False
    clause = str(v.get("clause", ""))
    lab = clause[8:] if clause.startswith("ensures_") else clause
    ps = c.clause_props.get(lab)
    return ps is None or pid in ps


# ---------------------------------------------------------------- main
def main(argv):
    if not argv:
        print("usage: check <property id> [--tier quick|thorough] [--replay file]")
        return 3
    pid = argv[0]
    tier = os.environ.get("VERIF_TIER", "quick")
    if "--tier" in argv:
        tier = argv[argv.index("--tier") + 1]
    seed = int(os.environ.get("VERIF_SEED", "1"))
    from .props import PROPS
    if pid not in PROPS:
        print(f"property {pid} is not claimed (see MANIFEST.json not_applicable)")
        return 3
    if "--replay" in argv:
        from .replay import replay
        return replay(pid, argv[argv.index("--replay") + 1])
    t_start = time.time()
    os.environ["PYVC_PID"] = pid
    spec = PROPS[pid]
    os.makedirs(os.path.join(OUT, "evidence"), exist_ok=True)
    os.makedirs(os.path.join(OUT, "replays"), exist_ok=True)
    timeout_ms = 60000 if tier == "quick" else 120000
    lines = []
    exit_code = 0
    try:
        world = load_world()
        targets = property_targets(world, pid)
    except VCError as ex:
        # a function under contract disappeared: undecided by proof; the bounded part below still runs
        world, targets = None, []
        lines.append(f"CHECKER: {ex}")
        exit_code = 3
    gens = generate(targets) if targets else []
    unsupported = [g for g in gens if not g["ok"]]
    internal = [g for g in unsupported if g.get("internal")]
    # ---- bounded part first (always: non-vacuity witness + stand-in; it is the fallback for failed obligations).
    # When it already holds a concrete failing input for this property the verdict is VIOLATION whatever the solvers
    # say: the obligations are then discharged with a short budget only (they are listed, not fought over).
    keys = sorted({k for k, _ in targets})
    bounded = None
    try:
        bounded = run_bounded(pid, tier, seed, keys)
    except Exception as ex:
        lines.append("CHECKER: bounded part crashed: " + repr(ex) + "\n" + traceback.format_exc(limit=8))
        exit_code = 3
    known = load_known()
    early = bounded is not None and any(
        (world is None or clause_in_property(world, v, pid)) and match_known(pid, v, known) is None
        for v in bounded["violations"])
    if early:
        timeout_ms = 8000
    n_cov, vacuous = check_covers(gens)
    obs, res = discharge_all(gens, timeout_ms, quick=early)
    lemma_res = []
    if world is not None:
        from .lemmas import prove_lemmas
        lemma_res = prove_lemmas(world, pid, timeout_ms)
    n_obl = len(obs) + len(lemma_res)
    failed = [(o, res[o.name]) for o in obs if res[o.name][0] != "unsat"]
    failed += [(Ob({"name": n, "where": w, "func": "lemma", "kind": "lemma"}), r) for (n, w, r) in lemma_res if r[0] != "unsat"]
    discharged = n_obl - len(failed)
    refuted = [(o, r) for (o, r) in failed if r[0] == "sat"]
    undecided = [(o, r) for (o, r) in failed if r[0] != "sat"]
    # ---- verdict
    violations = []
    known_hits = []
    if bounded is not None:
        for v in bounded["violations"]:
            if world is not None and not clause_in_property(world, v, pid):
                continue
            kf = match_known(pid, v, known)
            if kf is not None:
                known_hits.append((kf, v))
            else:
                violations.append(("runtime", v))
    for (o, r) in refuted:
        kf = match_known(pid, o.name, known)
        if kf is not None:
            known_hits.append((kf, o.name))
        else:
            violations.append(("obligation", (o, r)))
    replay_paths = []
    rt_viol = [v for (k, v) in violations if k == "runtime"]
    ob_viol = [v for (k, v) in violations if k == "obligation"]
    if rt_viol:
        # concrete failing inputs on the real code: one replay file per distinct (function, clause)
        seen = set()
        for v in rt_viol:
            sig = (v.get("function"), v.get("clause"), v.get("failed_conjunct"))
            if sig in seen:
                continue
            seen.add(sig)
            related = [o.name for (o, r) in failed if o.func.split("[")[0] == v.get("function")]
            path = os.path.join(OUT, "replays", f"{pid}-{len(replay_paths)}.json")
            with open(path, "w") as f:
                json.dump({"property": pid, "kind": "runtime-contract", "function": v.get("function"),
                           "clause": v.get("clause"), "failed_conjunct": v.get("failed_conjunct"),
                           "case": v.get("case"), "inputs": v.get("inputs"), "observed": v.get("observed"),
                           "expected": v.get("expected"), "failed_obligations": related,
                           "rerun": f"./check {pid} --replay {os.path.relpath(path, HERE)}"}, f, indent=1, default=str)
            replay_paths.append((path, False))
            if len(replay_paths) >= 5:
                break
    elif ob_viol:
        for (o, r) in ob_viol[:5]:
            path = os.path.join(OUT, "replays", f"{pid}-{len(replay_paths)}.json")
            with open(path, "w") as f:
                json.dump({"property": pid, "kind": "refuted-obligation", "obligation": o.name, "where": o.where,
                           "backend": r[1], "solver_verdict": r[0], "solver_model": r[3], "reason": r[4],
                           "note": "the obligation is discharged on the unchanged tree; no concrete failing input was "
                                   "found by the bounded search"}, f, indent=1, default=str)
            replay_paths.append((path, True))
    for kf, item in known_hits[:1]:
        pass
    printed_known = set()
    for kf, item in known_hits:
        if kf["id"] not in printed_known:
            printed_known.add(kf["id"])
            lines.append(f"KNOWN-FINDING: property={pid} {kf['id']}: {kf['what'][:200]}")
    if replay_paths:
        exit_code = 1
        for path, nofail in replay_paths:
            lines.append(f"VIOLATION property={pid} replay={path}" + (" no-failing-input-found" if nofail else ""))
    elif exit_code == 0:
        if vacuous or internal:
            exit_code = 3
            for n in vacuous:
                lines.append(f"CHECKER: vacuous path condition {n}")
            for g in internal:
                lines.append(f"CHECKER: internal error in {g['label']}: {g['error'][:400]}")
        elif undecided or [g for g in unsupported if not g.get("internal")]:
            # known-finding obligations that are refuted/undecided only inside their region do not count
            rest = [(o, r) for (o, r) in undecided if match_known(pid, o.name, known) is None]
            uns = [g for g in unsupported if not g.get("internal")]
            if rest or uns:
                exit_code = 2
                for (o, r) in rest[:10]:
                    lines.append(f"UNDECIDED obligation {o.name} ({r[0]}; {r[4]})")
                for g in uns:
                    lines.append(f"UNDECIDED function outside the verifier's subset: {g['label']}: {g['error'][:300]}")
    # non-vacuity of the bounded part: every function under contract was actually exercised
    never = []
    if bounded is not None and exit_code == 0:
        exempt = set(spec.get("no_witness", []))
        for k in keys:
            if bounded["pre_ok"].get(k, 0) == 0 and k not in exempt and k in bounded["installed"]:
                never.append(k)
        if never:
            exit_code = 3
            lines.append("CHECKER: no witness execution satisfied the precondition of: " + ", ".join(never))
    write_evidence(pid, tier, seed, spec, gens, obs, res, lemma_res, n_obl, discharged, n_cov, vacuous, bounded,
                   known_hits, violations, time.time() - t_start, unsupported)
    for l in lines:
        print(l)
    print(f"{pid}: obligations={n_obl} discharged={discharged} functions={len(gens)} covers={n_cov} "
          f"bounded_cases={(bounded or {}).get('cases', 0)} exit={exit_code} wall={time.time()-t_start:.1f}s")
    return exit_code


def write_evidence(pid, tier, seed, spec, gens, obs, res, lemma_res, n_obl, discharged, n_cov, vacuous, bounded,
                   known_hits, violations, wall, unsupported):
    level = spec["level"]
    per_backend = {}
    solver_ms = 0
    for o in obs:
        r = res[o.name]
        per_backend[r[1]] = per_backend.get(r[1], 0) + 1
        solver_ms += r[2]
    samples = []
    for o in obs:
        if not o.trivial and len(samples) < 4:
            r = res[o.name]
            samples.append({"obligation": o.name, "where": o.where, "verdict": r[0], "backend": r[1], "ms": r[2]})
    slow = sorted([(res[o.name][2], o.name) for o in obs], reverse=True)[:5]
    functions = [{"function": g["label"], "paths": g.get("paths"), "obligations": len(g.get("obligations", [])),
                  "callee_contracts": g.get("callees", []), "gen_s": round(g["gen_s"], 2)} for g in gens if g["ok"]]
    trusted = set(spec.get("trusted_base", []))
    for g in gens:
        for t in g.get("trusted", []):
            trusted.add("assumed contract: " + t)
    dropped = set()
    for g in gens:
        dropped.update(g.get("dropped", []))
    assumptions = list(spec.get("assumptions", []))
    assumptions += ["extraction drops: " + d for d in sorted(dropped)]
    for kf, _ in known_hits:
        a = f"known finding {kf['id']}: obligations are discharged outside the region [{kf.get('region','')}]"
        if a not in assumptions:
            assumptions.append(a)
    # obligations refuted by an OPEN known finding are not obligations of the claim "everything else is proved": they
    # are reported on their own (with the KNOWN-FINDING line) and left out of both counts
    _known = load_known()
    kf_obl = sorted(o.name for o in obs if res[o.name][0] != "unsat" and match_known(pid, o.name, _known) is not None)
    cov = {
        "obligations": n_obl - len(kf_obl), "discharged": discharged,
        "known_finding_obligations": kf_obl,
        "checker_cmd": f"./check {pid} --tier {tier}   (pyvc: ast -> VCs from {SRC}/cminx/*.py, z3 5.1 / cvc5 / z3 4.8.12)",
        "trusted_base": sorted(trusted),
        "functions_under_contract": functions,
        "functions_outside_subset": [{"function": g["label"], "reason": g["error"][:300]} for g in unsupported],
        "lemmas": [{"lemma": n, "verdict": r[0], "backend": r[1], "ms": r[2]} for (n, w, r) in lemma_res],
        "obligations_by_backend": per_backend, "solver_ms_total": solver_ms, "slowest": slow,
        "vacuity_covers_checked": n_cov, "vacuous_paths": vacuous,
        "samples": samples,
        "explanation": spec.get("explanation", ""),
    }
    if bounded is not None:
        checked = {k: v for k, v in bounded["post_checked"].items()}
        distinct = sum(d.get("distinct", 0) for d in bounded["drivers"]) or len([k for k, v in checked.items() if v > 0])
        cov.update({
            "evaluations": max(1, sum(checked.values()) + bounded["cases"]),
            "distinct_nontrivial": max(2, distinct) if (sum(checked.values()) + bounded["cases"]) > 1 else distinct,
            "rule": spec.get("bounded_rule", "bounded (labelled, never counted as proved): the same contracts "
                             "evaluated natively on the real functions over the drivers' enumerated inputs; "
                             "distinct = driver cases that differ in input; evaluations = contract evaluations + cases"),
            "bounded": {"label": "bounded stand-in, not proof", "drivers": bounded["drivers"],
                        "contract_evaluations": sum(checked.values()),
                        "functions_with_witness": len([k for k, v in checked.items() if v > 0]),
                        "clause_errors": bounded["n_errors"], "violations": len(bounded["violations"])},
        })
        for d in bounded["drivers"]:
            for smp in d.get("samples", []):
                if len(cov["samples"]) < 8:
                    cov["samples"].append({"bounded_case": smp})
    if not cov["samples"]:
        cov["samples"] = [{"note": "no non-trivial obligation"}]
    ev = {"property_id": pid, "tier": tier if tier in ("quick", "thorough") else "quick", "seed": seed, "level": level,
          "coverage": cov, "assumptions": assumptions, "wall_s": round(wall, 1),
          "violations": len(violations)}
    with open(os.path.join(OUT, "evidence", f"{pid}.json"), "w") as f:
        json.dump(ev, f, indent=1, default=str)


if __name__ == "__main__":
    sys.exit(main(sys.argv[1:]))
