import tempfile, os, sys
from cminx.documenter import Documenter
d = tempfile.mkdtemp()
p = os.path.join(d, "m.cmake")
open(p, "w").write("#[[[\n# doc\n#]]\nfunction(f a)\ncmake_parse_arguments(P "" "" "" ${ARGN})\nendfunction()\n")
doc = Documenter(p, "t", "m")
w = doc.process()
entry = doc.aggregator.documented[1]
from cminx.rstwriter import RSTWriter
w2 = RSTWriter("again")
entry.process(w2)
print([l for l in w2.to_text().splitlines() if "function::" in l])
