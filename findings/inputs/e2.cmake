function(f a)
endfunction()
#[[ unterminated
function(g b)
endfunction()
