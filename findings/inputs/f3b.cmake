generic_command(a b)
