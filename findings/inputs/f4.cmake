ct_add_test(NAME t)
#[[[
# doc of bar
#]]
function(bar a)
endfunction()
cmake_parse_arguments(X "" "" "" ${ARGN})
