#[[[
# doc
#]]
generic_command(a b)
