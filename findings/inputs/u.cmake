#[[[
# café ✓
#]]
function(f a)
endfunction()
