      #[[[ @module nm
      # module text
      #]]
      #[[[ Brief text
      # more
      #]]
      function(f)
      endfunction()
