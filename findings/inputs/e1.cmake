message(a\qb)
function(f a)
endfunction()
