function(f2 a)
endfunction()
