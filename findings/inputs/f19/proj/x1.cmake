function(f1 a)
endfunction()
