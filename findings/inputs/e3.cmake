a()
foo
#[[[
# doc
#]]
function(f x)
endfunction()
