#[[[
# doc
#]]
foo(a (b c) d)
