#[[[
# Documented class
#]]
cpp_class(A)
    #[[[
    # documented attr
    #]]
    cpp_attr(A x 1)
cpp_end_class()
#[[[
# Second documented class
#]]
cpp_class(B)
cpp_end_class()
