"""Contracts for /repo/src/cminx/rstwriter.py  (C20; rendering half of C01, C07, C12, C14)."""
from pyvc.dsl import *
from contracts.specs import *
try:
    from cminx.rstwriter import ListType
except ImportError:      # the verifier only parses this file
    pass

FIELD_TYPES = {
    "Heading.title": "str", "Heading.header_char": "str", "Heading.heading_string": "str",
    "Field.field_text": "opt[str]",
    "Option.value": "dyn",
    "RSTWriter.heading_level_chars": "list[str]",
    "RSTSettings.prefix": "opt[str]",
    "OutputSettings.directory": "opt[str]",
    "RSTSettings.headers": "list[str]",
}
NULLABLE = ["RSTSettings.headers"]


# ---------------------------------------------------------------- spec vocabulary of this module
@spec
def para_text(prefix: str, text: str) -> str:
    """every line of the paragraph carries the prefix; lines stay in order, separated by one newline"""
    return join("\n", [prefix + t for t in text.split("\n")])


@spec
def optstr(x: "opt[str]") -> str:
    return "None" if x is None else x


@spec
def field_text_of(indent: str, name: str, text: "opt[str]") -> str:
    return "\n" + indent + ":" + name + ": " + optstr(text)


@spec
def heading_text(title: str, c: str) -> str:
    """title framed by an over- and underline of c repeated once per character of the title"""
    return "\n" + rep(c, len(title)) + "\n" + title + "\n" + rep(c, len(title))


@spec
def enum_items(indent: str, items: "list[str]", k: int) -> str:
    return "" if k <= 0 else enum_items(indent, items, k - 1) + indent + str(k) + ". " + items[k - 1] + "\n"


@spec
def bullet_items(indent: str, items: "list[str]", k: int) -> str:
    return "" if k <= 0 else bullet_items(indent, items, k - 1) + indent + "* " + items[k - 1] + "\n"


@spec
def dheading_text(indent: str, title: str, args: str) -> str:
    return "\n" + indent + ".. " + title + ":: " + args


@spec
def header_chars(settings: "ref:Settings") -> "list[str]":
    return settings.rst.headers if settings.rst.headers is not None else class_attr("RSTWriter.heading_level_chars")


@spec
def heading_ok(w: "ref:RSTWriter") -> bool:
    """document[0] is the heading built from the writer's *current* title (both receiver classes)"""
    return ((not typeof(w, "RSTWriter") or
             (typeof(w.document[0], "Heading") and
              cast(w.document[0], "Heading").title == w.title and
              cast(w.document[0], "Heading").header_char == w.header_char and
              cast(w.document[0], "Heading").heading_string == heading_text(w.title, w.header_char))) and
            (not typeof(w, "Directive") or
             (typeof(w.document[0], "DirectiveHeading") and
              cast(w.document[0], "DirectiveHeading").heading_string ==
              dheading_text(indent_of(w.indent - 1), w.title, join(",", cast(w, "Directive").arguments)))))


@spec
def elements_ok(xs: "list[ref]") -> bool:
    return forall(0, len(xs), lambda i: is_element(xs[i]))


@spec(reads=RENDER_READS)
def tree_ok(w: "ref:RSTWriter") -> bool:
    """every element of the document tree below w is something str() knows how to render"""
    return (elements_ok(w.document) and
            (not typeof(w, "Directive") or
             (len(w.document) >= 1 and
              forall(0, len(cast(w, "Directive").options),
                     lambda i: typeof(cast(w, "Directive").options[i], "Option")))) and
            forall(0, len(w.document),
                   lambda i: not (typeof(w.document[i], "Directive") or typeof(w.document[i], "RSTWriter")) or
                   tree_ok(cast(w.document[i], "RSTWriter"))))


@spec
def writer_inv(w: "ref:RSTWriter") -> bool:
    """representation invariant of a writer / directive"""
    return (len(w.document) >= 1 and elements_ok(w.document) and heading_ok(w) and
            (typeof(w, "RSTWriter") or typeof(w, "Directive")) and
            len(header_chars(w.settings)) >= 1 and
            (not typeof(w, "Directive") or
             forall(0, len(cast(w, "Directive").options),
                    lambda i: typeof(cast(w, "Directive").options[i], "Option"))))


# ---------------------------------------------------------------- str(element): one virtual contract
@contract("virtual:__str__")
class virtual_str:
    """str(e) for an element of a document tree.  Every __str__ in rstwriter.py is verified against a
    contract with exactly this postcondition and frame; its own precondition follows from this one."""
    types = {"_params": [], "self": "ref", "return": "str"}

    def requires(self):
        return (is_element(self) and
                (not (typeof(self, "Directive") or typeof(self, "RSTWriter")) or tree_ok(cast(self, "RSTWriter"))))

    def ensures(self, result):
        return result == render(self)
    modifies = []


# ---------------------------------------------------------------- free functions
@contract("cminx.rstwriter:interpreted_text")
class interpreted_text_c:
    props = ["C09"]

    def returns(role, text):
        return ":" + role + ":`" + text + "`"

    def ensures(role, text, result):
        return result == ":" + role + ":`" + text + "`"
    modifies = []


@contract("cminx.rstwriter:get_indents")
class get_indents_c:
    props = ["C20", "C07"]

    def ensures(num, result):
        return result == indent_of(num)
    modifies = []
    loops = {0: Loop(inv=lambda indents, _k: indents == rep("   ", _k), modifies=[])}


# ---------------------------------------------------------------- element classes
@contract("cminx.rstwriter:Paragraph.__init__")
class Paragraph_init:
    props = ["C20", "C01", "C07"]

    def ensures(self, text, indent):
        return self.text == text and self.prefix == indent and self.text_string == para_text(indent, text)
    modifies = ["fields(self)"]


@contract("cminx.rstwriter:Paragraph.build_text_string")
class Paragraph_build:
    props = ["C20", "C01", "C07"]

    def ensures(self):
        return self.text_string == para_text(self.prefix, self.text)
    modifies = ["self.text_string"]


@contract("cminx.rstwriter:Paragraph.__str__")
class Paragraph_str:
    props = ["C20"]

    def requires(self):
        return typeof(self, "Paragraph")

    def ensures(self, result):
        return result == render(self)
    modifies = []


@contract("cminx.rstwriter:Field.__init__")
class Field_init:
    props = ["C20", "C07", "C10"]
    types = {"field_text": "opt[str]"}

    def ensures(self, field_name, field_text, indent):
        return (self.field_name == field_name and self.field_text == field_text and self.indent == indent and
                self.field_string == field_text_of(indent, field_name, field_text))
    modifies = ["fields(self)"]


@contract("cminx.rstwriter:Field.build_field_string")
class Field_build:
    props = ["C20", "C07"]

    def ensures(self):
        return self.field_string == field_text_of(self.indent, self.field_name, self.field_text)
    modifies = ["self.field_string"]


@contract("cminx.rstwriter:Field.__str__")
class Field_str:
    props = ["C20"]

    def requires(self):
        return typeof(self, "Field")

    def ensures(self, result):
        return result == render(self)
    modifies = []


@contract("cminx.rstwriter:DocTest.__str__")
class DocTest_str:
    props = ["C20"]

    def requires(self):
        return typeof(self, "DocTest")

    def ensures(self, result):
        return result == render(self)
    modifies = []


@contract("cminx.rstwriter:SimpleTable.__str__")
class SimpleTable_str:
    props = ["C20"]

    def requires(self):
        return typeof(self, "SimpleTable")

    def ensures(self, result):
        return result == render(self)
    modifies = []


@contract("cminx.rstwriter:RSTList.__init__")
class RSTList_init:
    props = ["C20", "C07", "C09"]
    types = {"items": "list[str]"}

    def ensures(self, items, list_type, indent):
        return (same(self.items, items) and self.list_type == list_type and self.indent == indent and
                self.list_string == "\n" + (enum_items(indent, items, len(items)) if list_type == ListType.ENUMERATED
                                            else bullet_items(indent, items, len(items))))
    modifies = ["fields(self)"]


@contract("cminx.rstwriter:RSTList.build_list_string")
class RSTList_build:
    props = ["C20", "C07"]

    def ensures(self):
        return self.list_string == "\n" + (enum_items(self.indent, self.items, len(self.items))
                                           if self.list_type == ListType.ENUMERATED
                                           else bullet_items(self.indent, self.items, len(self.items)))
    modifies = ["self.list_string"]
    loops = {
        0: Loop(inv=lambda self, _k: self.list_string == "\n" + enum_items(self.indent, self.items, _k),
                modifies=["self.list_string"]),
        1: Loop(inv=lambda self, _k: self.list_string == "\n" + bullet_items(self.indent, self.items, _k),
                modifies=["self.list_string"]),
    }


@contract("cminx.rstwriter:RSTList.__str__")
class RSTList_str:
    props = ["C20"]

    def requires(self):
        return typeof(self, "RSTList")

    def ensures(self, result):
        return result == render(self)
    modifies = []


@contract("cminx.rstwriter:Heading.__init__")
class Heading_init:
    props = ["C20", "C12"]
    types = {"title": "str", "header_char": "str"}

    def ensures(self, title, header_char):
        return (self.title == title and self.header_char == header_char and
                self.heading_string == heading_text(title, header_char))
    modifies = ["fields(self)"]


@contract("cminx.rstwriter:Heading.build_heading_string")
class Heading_build:
    props = ["C20", "C12"]

    def ensures(self):
        return self.heading_string == heading_text(self.title, self.header_char)
    modifies = ["self.heading_string"]
    loops = {0: Loop(inv=lambda self, heading, _k: heading == rep(self.header_char, _k), modifies=[])}


@contract("cminx.rstwriter:Heading.__str__")
class Heading_str:
    props = ["C20"]

    def requires(self):
        return typeof(self, "Heading")

    def ensures(self, result):
        return result == render(self)
    modifies = []


@contract("cminx.rstwriter:DirectiveHeading.__init__")
class DirectiveHeading_init:
    props = ["C20", "C07"]

    def ensures(self, title, indent, args):
        return (self.title == title and self.indent == indent and self.args == args and
                self.heading_string == dheading_text(indent, title, args))
    modifies = ["fields(self)"]


@contract("cminx.rstwriter:DirectiveHeading.build_heading_string")
class DirectiveHeading_build:
    props = ["C20", "C07"]

    def ensures(self):
        return self.heading_string == dheading_text(self.indent, self.title, self.args)
    modifies = ["self.heading_string"]


@contract("cminx.rstwriter:DirectiveHeading.__str__")
class DirectiveHeading_str:
    props = ["C20"]

    def requires(self):
        return typeof(self, "DirectiveHeading")

    def ensures(self, result):
        return result == render(self)
    modifies = []


@spec
def dynstr(x: "dyn") -> str:
    return str(x)


@contract("cminx.rstwriter:Option.__init__")
class Option_init:
    props = ["C20", "C14", "C09"]
    types = {"value": "dyn"}

    def requires(value):
        return not is_enum_value(value)

    def ensures(self, name, value, indent):
        return (self.name == name and self.value == value and self.indent == indent and
                self.option_string == indent + ":" + name + ": " + dynstr(value))
    modifies = ["fields(self)"]


@contract("cminx.rstwriter:Option.build_option_string")
class Option_build:
    props = ["C20", "C14"]

    def requires(self):
        return not is_enum_value(self.value)

    def ensures(self):
        return self.option_string == self.indent + ":" + self.name + ": " + dynstr(self.value)
    modifies = ["self.option_string"]


@contract("cminx.rstwriter:Option.__str__")
class Option_str:
    props = ["C20"]

    def requires(self):
        return typeof(self, "Option")

    def ensures(self, result):
        return result == render(self)
    modifies = []


# ---------------------------------------------------------------- RSTWriter / Directive
@contract("cminx.rstwriter:RSTWriter.__init__")
class RSTWriter_init:
    props = ["C20", "C12", "C17"]
    receivers = ["RSTWriter", "Directive"]
    types = {"settings": "ref:Settings"}

    def requires(self, title, section_level, settings, indent):
        return (same(self.heading_level_chars, class_attr("RSTWriter.heading_level_chars")) and
                0 <= section_level and section_level < len(header_chars(settings)) and
                (not typeof(self, "Directive") or len(cast(self, "Directive").arguments) >= 0))

    def ensures(self, title, section_level, settings, indent):
        return (self.title == title and self.section_level == section_level and same(self.settings, settings) and
                self.indent == indent and self.header_char == header_chars(settings)[section_level] and
                fresh(self.document) and len(self.document) == 1 and fresh(self.document[0]) and heading_ok(self))
    modifies = ["fields(self)"]


@contract("cminx.rstwriter:RSTWriter.build_heading")
class RSTWriter_build_heading:
    props = ["C20", "C12"]
    types = {"return": "ref:Heading"}
    result_exact = True

    def requires(self):
        return typeof(self, "RSTWriter")

    def ensures(self, result):
        return (fresh(result) and result.title == self.title and result.header_char == self.header_char and
                result.heading_string == heading_text(self.title, self.header_char))
    modifies = []


@contract("cminx.rstwriter:Directive.build_heading")
class Directive_build_heading:
    props = ["C20", "C07"]
    types = {"return": "ref:DirectiveHeading"}
    result_exact = True

    def ensures(self, result):
        return (fresh(result) and
                result.heading_string == dheading_text(indent_of(self.indent - 1), self.title,
                                                       join(",", self.arguments)))
    modifies = []


@contract("cminx.rstwriter:Directive.format_arguments")
class Directive_format_arguments:
    props = ["C20"]

    def ensures(self, result):
        return result == join(",", self.arguments)
    modifies = []


@contract("cminx.rstwriter:Directive.__init__")
class Directive_init:
    props = ["C20", "C07"]
    types = {"arguments": "list[str]", "settings": "ref:Settings"}

    def requires(self, name, indent, arguments, settings):
        return (same(self.heading_level_chars, class_attr("RSTWriter.heading_level_chars")) and
                len(header_chars(settings)) >= 1 and typeof(self, "Directive"))

    def ensures(self, name, indent, arguments, settings):
        return (self.title == name and self.indent == indent + 1 and same(self.settings, settings) and
                same(self.arguments, arguments) and fresh(self.options) and len(self.options) == 0 and
                self.section_level == 0 and
                fresh(self.document) and len(self.document) == 1 and fresh(self.document[0]) and
                writer_inv(self))
    modifies = ["fields(self)"]


@contract("cminx.rstwriter:RSTWriter.title")
class RSTWriter_title_get:
    props = ["C20"]

    def returns(self):
        return self.title

    def ensures(self, result):
        return result == self.title
    modifies = []


@contract("cminx.rstwriter:RSTWriter.title.setter")
class RSTWriter_title_set:
    props = ["C20", "C12"]
    receivers = ["RSTWriter", "Directive"]

    def requires(self, new_title):
        return len(self.document) >= 1

    def ensures(self, new_title):
        return (self.title == new_title and heading_ok(self) and fresh(self.document[0]) and
                len(self.document) == len(old.self.document) and same(self.document, old.self.document) and
                forall(1, len(self.document), lambda i: same(self.document[i], old.self.document[i])))
    modifies = ["self.__title", "items(self.document)"]


@contract("cminx.rstwriter:RSTWriter.clear")
class RSTWriter_clear:
    props = ["C20"]

    def ensures(self):
        return (len(self.document) == (1 if len(old.self.document) >= 1 else len(old.self.document)) and
                forall(0, len(self.document), lambda i: same(self.document[i], old.self.document[i])))
    modifies = ["items(self.document)"]


@spec
def appended_ref(new: "list[ref]", old_: "list[ref]", x: "ref") -> bool:
    """new == old ++ [x]"""
    return (len(new) == len(old_) + 1 and same(new[len(old_)], x) and
            forall(0, len(old_), lambda i: same(new[i], old_[i])))


@contract("cminx.rstwriter:RSTWriter.text")
class RSTWriter_text:
    props = ["C20", "C01", "C07"]

    def ensures(self, txt):
        return (appended_ref(self.document, old.self.document, self.document[len(old.self.document)]) and
                same(self.document, old.self.document) and
                fresh(self.document[len(old.self.document)]) and
                typeof(self.document[len(old.self.document)], "Paragraph") and
                cast(self.document[len(old.self.document)], "Paragraph").text == txt and
                cast(self.document[len(old.self.document)], "Paragraph").prefix == indent_of(self.indent) and
                cast(self.document[len(old.self.document)], "Paragraph").text_string ==
                para_text(indent_of(self.indent), txt))
    modifies = ["items(self.document)"]


@contract("cminx.rstwriter:RSTWriter.field")
class RSTWriter_field:
    props = ["C20", "C07", "C10"]
    types = {"field_text": "opt[str]"}

    def ensures(self, field_name, field_text):
        return (appended_ref(self.document, old.self.document, self.document[len(old.self.document)]) and
                same(self.document, old.self.document) and
                fresh(self.document[len(old.self.document)]) and
                typeof(self.document[len(old.self.document)], "Field") and
                cast(self.document[len(old.self.document)], "Field").field_name == field_name and
                cast(self.document[len(old.self.document)], "Field").field_text == field_text and
                cast(self.document[len(old.self.document)], "Field").field_string ==
                field_text_of(indent_of(self.indent), field_name, field_text))
    modifies = ["items(self.document)"]


@contract("cminx.rstwriter:RSTWriter.bulleted_list")
class RSTWriter_bulleted_list:
    props = ["C20", "C07", "C09"]
    types = {"items": "list[str]"}

    def ensures(self, items):
        return (appended_ref(self.document, old.self.document, self.document[len(old.self.document)]) and
                same(self.document, old.self.document) and
                fresh(self.document[len(old.self.document)]) and
                typeof(self.document[len(old.self.document)], "RSTList") and
                cast(self.document[len(old.self.document)], "RSTList").list_string ==
                "\n" + bullet_items(indent_of(self.indent), items, len(items)))
    modifies = ["items(self.document)"]


@contract("cminx.rstwriter:RSTWriter.enumerated_list")
class RSTWriter_enumerated_list:
    props = ["C20", "C07"]
    types = {"items": "list[str]"}

    def ensures(self, items):
        return (appended_ref(self.document, old.self.document, self.document[len(old.self.document)]) and
                same(self.document, old.self.document) and
                fresh(self.document[len(old.self.document)]) and
                typeof(self.document[len(old.self.document)], "RSTList") and
                cast(self.document[len(old.self.document)], "RSTList").list_string ==
                "\n" + enum_items(indent_of(self.indent), items, len(items)))
    modifies = ["items(self.document)"]


@contract("cminx.rstwriter:RSTWriter.directive")
class RSTWriter_directive:
    props = ["C20", "C07", "C02"]
    types = {"arguments": "list[str]", "return": "ref:Directive"}
    result_exact = True

    def requires(self, name, arguments):
        return len(header_chars(self.settings)) >= 1

    def ensures(self, name, arguments, result):
        return (appended_ref(self.document, old.self.document, result) and same(self.document, old.self.document) and
                fresh(result) and result.title == name and result.indent == self.indent + 1 and
                same(result.settings, self.settings) and
                len(result.arguments) == len(arguments) and
                forall(0, len(arguments), lambda i: result.arguments[i] == arguments[i]) and
                fresh(result.options) and len(result.options) == 0 and
                fresh(result.document) and len(result.document) == 1 and fresh(result.document[0]) and
                writer_inv(result))
    modifies = ["items(self.document)"]


@contract("cminx.rstwriter:Directive.option")
class Directive_option:
    props = ["C20", "C14", "C09"]
    types = {"value": "dyn"}

    def requires(self, name, value):
        return not is_enum_value(value)

    def ensures(self, name, value):
        return (appended_ref(self.options, old.self.options, self.options[len(old.self.options)]) and
                same(self.options, old.self.options) and
                fresh(self.options[len(old.self.options)]) and
                typeof(self.options[len(old.self.options)], "Option") and
                cast(self.options[len(old.self.options)], "Option").option_string ==
                indent_of(self.indent) + ":" + name + ": " + dynstr(value))
    modifies = ["items(self.options)"]


@contract("cminx.rstwriter:RSTWriter.to_text")
class RSTWriter_to_text:
    props = ["C20", "C17", "C18"]

    def requires(self):
        return tree_ok(self) and typeof(self, "RSTWriter")

    def ensures(self, result):
        return result == writer_text(self)
    modifies = []
    loops = {0: Loop(inv=lambda self, document_string, _k: document_string == cat_render(self.document, 0, _k),
                     modifies=[])}


@contract("cminx.rstwriter:Directive.to_text")
class Directive_to_text:
    props = ["C20", "C07", "C14"]

    def requires(self):
        return tree_ok(self) and typeof(self, "Directive")

    def ensures(self, result):
        return result == directive_text(self)
    modifies = []
    loops = {
        0: Loop(inv=lambda self, document_string, _k:
                document_string == render(self.document[0]) + "\n" + cat_render(self.options, 0, _k), modifies=[]),
        1: Loop(inv=lambda self, document_string, _k:
                document_string == render(self.document[0]) + "\n" + cat_render(self.options, 0, len(self.options)) +
                ("\n" if len(self.document) > 1 else "") + cat_render(self.document, 1, 1 + _k), modifies=[]),
    }


@contract("cminx.rstwriter:RSTWriter.__str__")
class RSTWriter_str:
    props = ["C20"]
    receivers = ["RSTWriter", "Directive"]

    def requires(self):
        return tree_ok(self)

    def ensures(self, result):
        return result == render(self)
    modifies = []


# ---------------------------------------------------------------- lemmas that tie the contracts to the sentences of C20 / C12
@lemma
def rep_len1(c: str, n: int):
    """an over-/underline of a one-character header has exactly the title's length"""
    props("C20", "C12")
    requires(n >= 0 and len(c) == 1)
    ensures(len(rep(c, n)) == n)
    induction(n)


@lemma
def indent_len(d: int):
    """an element added d levels deep carries exactly 3*d characters of indentation ..."""
    props("C20", "C07")
    requires(d >= 0)
    ensures(len(indent_of(d)) == 3 * d)
    induction(d)


@lemma
def indent_step(d: int):
    """... and a directive nested one level deeper adds exactly three spaces"""
    props("C20", "C07")
    requires(d >= 0)
    ensures(indent_of(d + 1) == indent_of(d) + "   ")


@lemma
def heading_frame(title: str, c: str):
    """the title is framed by an over- and underline of the header character repeated to exactly its length"""
    props("C20", "C12")
    requires(len(c) == 1)
    ensures(rep_len1(c, len(title)) and
            heading_text(title, c) == "\n" + rep(c, len(title)) + "\n" + title + "\n" + rep(c, len(title)) and
            len(rep(c, len(title))) == len(title))
