"""Contracts for /repo/src/cminx/documenter.py and /repo/src/cminx/parser/__init__.py
(C06 wiring, C01 decoding, C02/C07/C12 rendering order)."""
from pyvc.dsl import *
from contracts.specs import *
from contracts.c_rstwriter import *
from contracts.c_aggregator import *
from contracts.c_doctypes import *
try:
    from cminx.documentation_types import ModuleDocumentation, VariableDocumentation, OptionDocumentation
except ImportError:
    pass

EXTERNAL_CLASSES = {
    "InputStream": {"bases": []}, "CMakeLexer": {"bases": ["Recognizer"]}, "CMakeParser": {"bases": ["Recognizer"]},
    "Recognizer": {"bases": []}, "CommonTokenStream": {"bases": []}, "ParseTreeWalker": {"bases": []},
    "BailErrorStrategy": {"bases": []}, "Cmake_fileContext": {"bases": []},
}
GHOST_FIELDS = {
    "InputStream.g_file": "str", "InputStream.g_encoding": "str",
    "Recognizer.g_raising_listener": "bool",          # a listener whose syntaxError always raises is attached
    "CMakeLexer.g_input": "ref:InputStream",
    "CommonTokenStream.g_lexer": "ref:CMakeLexer",
    "CMakeParser.g_tokens": "ref:CommonTokenStream",
    "CMakeParser._errHandler": "ref",
    "CMakeSyntaxError.lineno": "str", "CMakeSyntaxError.msg": "opt[str]",
}
FIELD_TYPES = {
    "Documenter.input_stream": "ref:InputStream", "Documenter.lexer": "ref:CMakeLexer",
    "Documenter.stream": "ref:CommonTokenStream", "Documenter.parser": "ref:CMakeParser",
    "Documenter.walker": "ref:ParseTreeWalker", "Documenter.module_name": "str",
    "ParserErrorListener.logger": "ref",
}
NULLABLE = ["ParserErrorListener.logger"]


# ghost observers: symbolically a ghost field of the ANTLR object, natively computed from the real object
@spec(ghost="Recognizer.g_raising_listener")
def raising_listener(rec: "ref:Recognizer") -> bool:
    """a listener whose syntaxError raises on every call is registered on the recognizer"""
    from cminx.parser import ParserErrorListener
    return any(isinstance(l, ParserErrorListener) for l in rec._listeners)


@spec(ghost="InputStream.g_encoding")
def stream_encoding(inp: "ref:InputStream") -> str:
    """the codec the stream was decoded with (natively: the stream's text is the UTF-8 decoding of the file)"""
    with open(inp.fileName, encoding="utf-8", newline="") as f:
        return "utf-8" if inp.strdata == f.read() else "other"


@spec(ghost="InputStream.g_file")
def stream_file(inp: "ref:InputStream") -> str:
    return inp.fileName


@spec(ghost="CMakeLexer.g_input")
def lexer_input(lx: "ref:CMakeLexer") -> "ref:InputStream":
    return lx._input


@spec(ghost="CommonTokenStream.g_lexer")
def tokens_lexer(ts: "ref:CommonTokenStream") -> "ref:CMakeLexer":
    return ts.tokenSource


@spec(ghost="CMakeParser.g_tokens")
def parser_tokens(ps: "ref:CMakeParser") -> "ref:CommonTokenStream":
    return ps._input


# ------------------------------------------------------------------------------------------------ T-ANTLR (runtime)
@contract("ext:FileStream")
class ext_FileStream:
    """decodes the whole file strictly with the given codec (default 'ascii'); raises on undecodable bytes"""
    trusted = True
    types = {"_params": ["fileName", "encoding"], "_defaults": {"encoding": "ascii"}, "fileName": "str",
             "encoding": "str", "return": "ref:InputStream"}
    result_exact = True

    def ensures(fileName, encoding, result):
        return fresh(result) and result.g_file == fileName and result.g_encoding == encoding
    raises = {"UnicodeDecodeError": lambda fileName: True}
    raises_exact = False
    modifies = []


@contract("ext:CMakeLexer")
class ext_CMakeLexer:
    trusted = True
    types = {"_params": ["input"], "input": "ref:InputStream", "return": "ref:CMakeLexer"}
    result_exact = True

    def ensures(input, result):
        return fresh(result) and same(result.g_input, input) and not result.g_raising_listener
    modifies = []


@contract("ext:CommonTokenStream")
class ext_CommonTokenStream:
    trusted = True
    types = {"_params": ["lexer"], "lexer": "ref:CMakeLexer", "return": "ref:CommonTokenStream"}
    result_exact = True

    def ensures(lexer, result):
        return fresh(result) and same(result.g_lexer, lexer)
    modifies = []


@contract("ext:CMakeParser")
class ext_CMakeParser:
    trusted = True
    types = {"_params": ["input"], "input": "ref:CommonTokenStream", "return": "ref:CMakeParser"}
    result_exact = True

    def ensures(input, result):
        return fresh(result) and same(result.g_tokens, input) and not result.g_raising_listener
    modifies = []


@contract("ext:Recognizer.addErrorListener")
class ext_addErrorListener:
    """registers the listener; ParserErrorListener.syntaxError raises on every call (proved below)"""
    trusted = True
    types = {"_params": ["listener"], "self": "ref:Recognizer", "listener": "ref:ParserErrorListener"}

    def ensures(self, listener):
        return self.g_raising_listener
    modifies = ["self.g_raising_listener"]


@contract("ext:BailErrorStrategy")
class ext_BailErrorStrategy:
    trusted = True
    types = {"_params": [], "return": "ref:BailErrorStrategy"}
    result_exact = True

    def ensures(result):
        return fresh(result)
    modifies = []


@contract("ext:ParseTreeWalker")
class ext_ParseTreeWalker:
    trusted = True
    types = {"_params": [], "return": "ref:ParseTreeWalker"}
    result_exact = True

    def ensures(result):
        return fresh(result)
    modifies = []


@contract("ext:CMakeParser.cmake_file")
class ext_cmake_file:
    """parses the token stream.  With a raising listener on lexer and parser and the bail strategy, every lexer or
    parser error ends this call with an exception (T-ANTLR); otherwise errors are reported and skipped."""
    trusted = True
    types = {"_params": [], "self": "ref:CMakeParser", "return": "ref:Cmake_fileContext"}
    raises = {"Exception": lambda self: True}
    raises_exact = False
    modifies = []


@contract("ext:ParseTreeWalker.walk")
class ext_walk:
    """calls the listener's enter* callbacks in source order (DESIGN.md 3); exceptions of callbacks propagate"""
    trusted = True
    types = {"_params": ["listener", "t"], "self": "ref:ParseTreeWalker", "listener": "ref:DocumentationAggregator",
             "t": "ref:Cmake_fileContext"}
    raises = {"Exception": lambda self: True}
    raises_exact = False

    def ensures(self, listener, t):
        """what the callbacks establish for the aggregated entries (their postconditions: e_variable/e_option fix the
        type fields; a module doccomment can only open the file) - the composition over the event sequence is
        ASSUMED here, see DESIGN.md"""
        return (forall(0, len(listener.documented), lambda i: entry_ok(listener.documented[i])) and
                forall(1, len(listener.documented),
                       lambda i: not isinstance(listener.documented[i], ModuleDocumentation)) and
                newer(listener.documented, listener) and
                forall(0, len(listener.documented), lambda i: newer(listener.documented[i], listener)))
    modifies = ["fields(listener)", "newer_than(listener)"]


# ------------------------------------------------------------------------------------------------ error listener (C06)
@contract("cminx.parser:ParserErrorListener.__init__")
class ParserErrorListener_init:
    props = ["C06"]

    def ensures(self):
        return True
    modifies = ["fields(self)"]


@contract("cminx.parser:ParserErrorListener.syntaxError")
class ParserErrorListener_syntaxError:
    """never returns normally: every reported syntax error becomes an exception"""
    props = ["C06"]
    types = {"recognizer": "ref", "offendingSymbol": "ref", "line": "int", "column": "int", "msg": "opt[str]",
             "e": "optref:RecognitionException", "s": "ref:CMakeSyntaxError"}
    raises = {"Exception": lambda self: True}

    def ensures(self):
        return False
    modifies = []


# ------------------------------------------------------------------------------------------------ Documenter
@spec
def documenter_owns(d: "ref:Documenter") -> bool:
    """the documenter's writer, aggregator and parser objects were created by it (after it)"""
    return (newer(d.writer, d) and newer(d.writer.document, d) and newer(d.aggregator, d) and
            newer(d.parser, d) and newer(d.walker, d))


@contract("cminx.documenter:Documenter.__init__")
class Documenter_init:
    """C06 K1 / C01 K5: UTF-8 decoding; a raising listener on BOTH lexer and parser; no error recovery"""
    props = ["C06", "C01", "C12", "C17"]
    types = {"title": "opt[str]", "module_name": "opt[str]", "settings": "ref:Settings"}
    raises = {"UnicodeDecodeError": lambda file: True}
    raises_exact = False

    def requires(self, file, title, module_name, settings):
        return len(header_chars(settings)) >= 1

    def ensures(self, file, title, module_name, settings):
        return (same(self.settings, settings) and
                self.module_name == (module_name if module_name is not None else (title if title is not None else file)) and
                fresh(self.writer) and typeof(self.writer, "RSTWriter") and
                self.writer.title == (title if title is not None else file) and same(self.writer.settings, settings) and
                self.writer.indent == 0 and len(self.writer.document) == 1 and heading_ok(self.writer) and
                fresh(self.aggregator) and same(self.aggregator.settings, settings) and
                len(self.aggregator.documented) == 0 and documenter_owns(self))

    def ensures_wiring(self, file, title, module_name, settings):
        return (stream_file(self.input_stream) == file and stream_encoding(self.input_stream) == "utf-8" and
                same(lexer_input(self.lexer), self.input_stream) and same(tokens_lexer(self.stream), self.lexer) and
                same(parser_tokens(self.parser), self.stream) and
                raising_listener(self.lexer) and raising_listener(self.parser) and
                typeof(self.parser._errHandler, "BailErrorStrategy"))
    modifies = ["fields(self)"]


@contract("cminx.documenter:Documenter.process")
class Documenter_process:
    """C06 K3: nothing is swallowed - a syntax error or a callback failure ends process() with an exception;
    the writer is returned only after parsing, aggregation and rendering completed"""
    props = ["C06", "C02", "C17"]
    raises = {"Exception": lambda self: True}
    raises_exact = False

    def requires(self):
        return (len(header_chars(self.writer.settings)) >= 1 and len(self.writer.document) >= 1 and
                typeof(self.writer, "RSTWriter") and heading_ok(self.writer) and documenter_owns(self) and
                not same(self.writer.document, self.aggregator.documented))

    def ensures(self, result):
        return same(result, self.writer) and same(self.writer, old.self.writer)

    def ensures_assumed_tree(self, result):
        """ASSUMED (not proved): the rendered document consists of elements the writer API creates, at every nesting
        level (each renderer is proved to append such elements; the transitive closure is not)"""
        return typeof(result, "RSTWriter") and tree_ok(result)
    modifies = ["newer_than(self)"]        # the documenter's own objects and what it creates; nothing older        # the documenter's own objects and what it creates; nothing older


@spec
def kind_title(e: "ref:DocumentationType") -> str:
    """the Sphinx directive each entry kind is rendered as (C02)"""
    return ("module" if typeof(e, "ModuleDocumentation") else
            "py:class" if typeof(e, "ClassDocumentation") else
            "data" if (typeof(e, "VariableDocumentation") or typeof(e, "OptionDocumentation")) else
            "py:method" if typeof(e, "MethodDocumentation") else
            "py:attribute" if typeof(e, "AttributeDocumentation") else "function")


@spec
def top_dir(w: "ref:RSTWriter", x: "ref", e: "ref:DocumentationType") -> bool:
    """x is the top-level directive the entry e contributed"""
    return (typeof(x, "Directive") and cast(x, "Directive").title == kind_title(e) and
            cast(x, "Directive").indent == w.indent + 1)


@spec
def entry_ok(e: "ref:DocumentationType") -> bool:
    """type invariants of entries that the renderers rely on (established by the aggregator's processors)"""
    return ((not typeof(e, "VariableDocumentation") or
             (cast(e, "VariableDocumentation").type == VarType.STRING or
              cast(e, "VariableDocumentation").type == VarType.LIST or
              cast(e, "VariableDocumentation").type == VarType.UNSET)) and
            (not typeof(e, "OptionDocumentation") or is_str_value(cast(e, "OptionDocumentation").type)) and
            not typeof(e, "DanglingDoccomment"))


@contract("cminx.documentation_types:DanglingDoccomment.process")
class DanglingDoccomment_process:
    props = ["C02"]

    def ensures(self, writer):
        return grew1(writer.document, old.writer.document) and same(writer.document, old.writer.document)
    modifies = ["items(writer.document)"]


@spec
def modules_of(docs: "list[ref]", k: int) -> "list[ref]":
    """the module entries among the first k entries, in order"""
    return [] if k <= 0 else ((modules_of(docs, k - 1) + [docs[k - 1]])
                              if isinstance(docs[k - 1], ModuleDocumentation) else modules_of(docs, k - 1))


@spec
def has_module(docs: "list[ref]") -> bool:
    return len(docs) > 0 and isinstance(docs[0], ModuleDocumentation)


@lemma
def modules_tail(docs: "list[ref]", k: int):
    """with no module entry after the first position, the module entries are exactly [docs[0]] or nothing"""
    props("C12", "C02", "C07")
    requires(k >= 0 and k <= len(docs) and forall(1, k, lambda i: not isinstance(docs[i], ModuleDocumentation)))
    ensures(len(modules_of(docs, k)) == (1 if k >= 1 and isinstance(docs[0], ModuleDocumentation) else 0) and
            (not (k >= 1 and isinstance(docs[0], ModuleDocumentation)) or same(modules_of(docs, k)[0], docs[0])))
    induction(k)


@contract("cminx.documenter:Documenter.process_docs")
class Documenter_process_docs:
    """C02/C07/C12: a module entry is put first when the file has none; then every entry is rendered exactly once,
    in list order, as one top-level directive of its kind; the title follows a named @module doccomment"""
    props = ["C02", "C07", "C12", "C17"]
    types = {"docs": "list[ref:DocumentationType]", "module_docs": "list[ref:ModuleDocumentation]"}

    def requires(self, docs):
        return (len(header_chars(self.writer.settings)) >= 1 and len(self.writer.document) >= 1 and
                typeof(self.writer, "RSTWriter") and heading_ok(self.writer) and
                forall(0, len(docs), lambda i: entry_ok(docs[i])) and
                forall(1, len(docs), lambda i: not isinstance(docs[i], ModuleDocumentation)) and
                not same(docs, self.writer.document))

    def ensures_module_first(self, docs):
        """exactly one module entry, first: the file's own (T-ANTLR: a module doccomment can only open the file)
        or a generated one named after the module"""
        return (len(docs) >= 1 and typeof(docs[0], "ModuleDocumentation") and
                (not has_module(old.docs) or unchanged(docs, old.docs)) and
                (has_module(old.docs) or
                 (len(docs) == len(old.docs) + 1 and fresh(docs[0]) and docs[0].name == self.module_name and
                  docs[0].doc == "" and forall(0, len(old.docs), lambda i: same(docs[i + 1], old.docs[i])))))

    def ensures_names(self, docs):
        """an empty @module name falls back to the path-derived module name; a given name is also the title"""
        return (not has_module(old.docs) or
                ((len(old.docs[0].name) != 0 or (docs[0].name == self.module_name and
                                                 self.writer.title == old.self.writer.title)) and
                 (len(old.docs[0].name) == 0 or (docs[0].name == old.docs[0].name and
                                                 self.writer.title == old.docs[0].name))))

    def ensures_rendered(self, docs):
        return (len(self.writer.document) == len(old.self.writer.document) + len(docs) and
                forall(0, len(docs), lambda j: top_dir(self.writer, self.writer.document[len(old.self.writer.document) + j],
                                                       docs[j])) and
                forall(1, len(old.self.writer.document),
                       lambda i: same(self.writer.document[i], old.self.writer.document[i])) and
                heading_ok(self.writer))
    modifies = ["items(docs)", "items(self.writer.document)", "self.writer.__title",
                "docs[0].name if len(docs) > 0 and isinstance(docs[0], ModuleDocumentation) else None"]
    loops = {
        0: Loop(inv=lambda docs, _out, _k: _out == modules_of(docs, _k), modifies=["items(_out)"],
                elem="ref:ModuleDocumentation"),
        1: Loop(inv=lambda self, docs, module_docs, _k:
                modules_tail(old.docs, len(old.docs)) and
                _k <= 1 and len(module_docs) <= 1 and
                same(self.writer, entry.self.writer) and same(self.writer.document, entry.self.writer.document) and
                len(self.writer.document) == len(entry.self.writer.document) and heading_ok(self.writer) and
                forall(1, len(self.writer.document),
                       lambda i: same(self.writer.document[i], entry.self.writer.document[i])) and
                (_k != 0 or (self.writer.title == entry.self.writer.title and
                             (len(module_docs) == 0 or module_docs[0].name == entry.module_docs[0].name))) and
                (_k != 1 or ((len(entry.module_docs[0].name) != 0 or
                              (module_docs[0].name == self.module_name and
                               self.writer.title == entry.self.writer.title)) and
                             (len(entry.module_docs[0].name) == 0 or
                              (module_docs[0].name == entry.module_docs[0].name and
                               self.writer.title == entry.module_docs[0].name)))),
                modifies=["module_docs[0].name if len(module_docs) > 0 else None", "self.writer.__title",
                          "items(self.writer.document)"]),
        2: Loop(inv=lambda self, docs, _k:
                len(self.writer.document) == len(entry.self.writer.document) + _k and
                same(self.writer.document, entry.self.writer.document) and
                forall(0, len(entry.self.writer.document),
                       lambda i: same(self.writer.document[i], entry.self.writer.document[i])) and
                forall(0, _k, lambda j: top_dir(self.writer, self.writer.document[len(entry.self.writer.document) + j],
                                                docs[j])),
                modifies=["items(self.writer.document)"]),
    }
