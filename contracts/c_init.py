"""Contracts for /repo/src/cminx/__init__.py and RSTWriter.write_to_file (C12-C18)."""
from pyvc.dsl import *
from contracts.specs import *
from contracts.c_rstwriter import *
from contracts.c_documenter import *

FIELD_TYPES = {"OWNED_WORLD": "str"}
OWNED_LIST_FIELDS = ["World.made", "World.wpaths", "World.wdata", "World.out"]


@contract("cminx.rstwriter:RSTWriter.write_to_file")
class RSTWriter_write_to_file:
    """C18: exactly one file is written: the given path, holding the serialised document"""
    props = ["C18", "C13", "C14"]
    receivers = ["RSTWriter"]
    types = {"file": "str"}
    raises = {"ValueError": lambda file: file == ""}

    def requires(self, file):
        return tree_ok(self) and file != "" and file.strip() == file

    def ensures(self, file):
        return (len(WORLD.wpaths) == len(old.WORLD.wpaths) + 1 and WORLD.wpaths[-1] == file and
                WORLD.wdata[-1] == writer_text(self) and
                forall(0, len(old.WORLD.wpaths), lambda i: WORLD.wpaths[i] == old.WORLD.wpaths[i] and
                       WORLD.wdata[i] == old.WORLD.wdata[i]))
    modifies = ["items(WORLD.wpaths)", "items(WORLD.wdata)"]


# ---------------------------------------------------------------- page names (C12)
@spec
def strip_ext(s: str, keep: bool) -> str:
    """the .cmake extension is dropped unless the option keeps it"""
    return s if keep else re_sub("\\.cmake$", s)


@spec
def page_name(prefix: "opt[str]", sep: str, rel: str, keep: bool) -> str:
    """C12: derived only from the prefix and the relative path; starts with prefix + separator when a prefix applies"""
    return strip_ext(rel if prefix is None else prefix + sep + rel, keep)


@spec
def rel_name(file: str, root: str) -> str:
    """path relative to the input directory; a lone input file: its base name"""
    return path_relpath(file, root) if fs_isdir(root) else path_basename(file)


@spec
def page_path(out: str, file: str, root: str) -> str:
    """C13/C18: the same relative path below the output directory, extension replaced by .rst"""
    return (path_join(out, path_join(path_dirname(path_relpath(file, root)), stem(path_basename(file)) + ".rst"))
            if fs_isdir(root) else path_join(out, stem(path_basename(file)) + ".rst"))


@contract("cminx:document_single_file")
class document_single_file_c:
    """C12 (names), C13/C18 (where the page goes, nothing else), C06 K2 (written only after processing finished)"""
    props = ["C12", "C13", "C18", "C06", "C17"]
    types = {"file": "str", "root": "str", "settings": "ref:Settings", "header_name": "str", "module_name": "str",
             "output_filename": "str", "subpath": "str"}
    raises = {"Exception": lambda file: True}
    raises_exact = False

    def requires(file, root, settings):
        return (len(header_chars(settings)) >= 1 and rel_name(file, root) != settings.rst.module_path_separator and
                not exists(0, len(WORLD.made), lambda i: WORLD.made[i] == root) and
                (settings.output.directory is None or settings.output.directory != root or fs_isdir(root)) and
                (settings.output.directory is None or page_path(settings.output.directory, file, root) != "") and
                (settings.output.directory is None or
                 page_path(settings.output.directory, file, root).strip() == page_path(settings.output.directory, file, root)))

    def ensures_stdout(file, root, settings):
        return (settings.output.directory is not None or
                (len(WORLD.out) == len(old.WORLD.out) + 1 and
                 forall(0, len(old.WORLD.out), lambda i: WORLD.out[i] == old.WORLD.out[i]) and
                 len(WORLD.wpaths) == len(old.WORLD.wpaths) and len(WORLD.made) == len(old.WORLD.made)))

    def ensures_file(file, root, settings):
        return (settings.output.directory is None or
                (len(WORLD.out) == len(old.WORLD.out) and
                 len(WORLD.made) == len(old.WORLD.made) + 1 and WORLD.made[-1] == settings.output.directory and
                 len(WORLD.wpaths) == len(old.WORLD.wpaths) + 1 and
                 WORLD.wpaths[-1] == page_path(settings.output.directory, file, root) and
                 forall(0, len(old.WORLD.wpaths), lambda i: WORLD.wpaths[i] == old.WORLD.wpaths[i] and
                        WORLD.wdata[i] == old.WORLD.wdata[i])))
    modifies = ["items(WORLD.out)", "items(WORLD.wpaths)", "items(WORLD.wdata)", "items(WORLD.made)"]
