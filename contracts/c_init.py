"""Contracts for /repo/src/cminx/__init__.py and RSTWriter.write_to_file (C12-C18)."""
from pyvc.dsl import *
from contracts.specs import *
from contracts.c_rstwriter import *
from contracts.c_documenter import *

FIELD_TYPES = {"OWNED_WORLD": "str"}
OWNED_LIST_FIELDS = ["World.made", "World.wpaths", "World.wdata", "World.out"]


@contract("cminx.rstwriter:RSTWriter.write_to_file")
class RSTWriter_write_to_file:
    """C18: exactly one file is written: the given path (white space around it removed - that is what the code opens),
    holding the serialised document; an empty path is refused"""
    props = ["C18", "C13", "C14"]
    receivers = ["RSTWriter"]
    types = {"file": "str"}
    raises = {"ValueError": lambda file: file == ""}

    def requires(self, file):
        return tree_ok(self)

    def ensures(self, file):
        return (file != "" and
                len(WORLD.wpaths) == len(old.WORLD.wpaths) + 1 and WORLD.wpaths[-1] == file.strip() and
                len(WORLD.wdata) == len(old.WORLD.wdata) + 1 and WORLD.wdata[-1] == writer_text(self) and
                forall(0, len(old.WORLD.wpaths), lambda i: WORLD.wpaths[i] == old.WORLD.wpaths[i]) and
                forall(0, len(old.WORLD.wdata), lambda i: WORLD.wdata[i] == old.WORLD.wdata[i]))
    modifies = ["items(WORLD.wpaths)", "items(WORLD.wdata)"]


# ---------------------------------------------------------------- page names (C12)
@spec
def strip_ext(s: str, keep: bool) -> str:
    """the .cmake extension is dropped unless the option keeps it"""
    return s if keep else re_sub("\\.cmake$", s)


@spec
def with_prefix(prefix: str, sep: str, rel: str) -> str:
    return prefix + sep + rel


@spec
def page_name(prefix: "opt[str]", sep: str, rel: str, keep: bool) -> str:
    """C12: derived only from the prefix and the relative path; starts with prefix + separator when a prefix applies"""
    return strip_ext(rel if prefix is None else with_prefix(prefix, sep, rel), keep)


@spec
def rel_name(file: str, root: str) -> str:
    """path relative to the input directory; a lone input file: its base name"""
    return path_relpath(file, root) if fs_isdir(root) else path_basename(file)


@spec
def page_path(out: str, file: str, root: str) -> str:
    """C13/C18: the same relative path below the output directory, extension replaced by .rst"""
    return (path_join(out, path_join(path_dirname(path_relpath(file, root)), stem(path_basename(file)) + ".rst"))
            if fs_isdir(root) else path_join(out, stem(path_basename(file)) + ".rst"))


@contract("cminx:document_single_file")
class document_single_file_c:
    """C12 (names), C13/C18 (where the page goes, nothing else), C06 K2 (written only after processing finished)"""
    props = ["C12", "C13", "C18", "C06", "C17"]
    types = {"file": "str", "root": "str", "settings": "ref:Settings", "header_name": "str", "module_name": "str",
             "output_filename": "str", "subpath": "str"}
    raises = {"Exception": lambda file: True}
    raises_exact = False

    def requires(file, root, settings):
        return (len(header_chars(settings)) >= 1 and
                (fs_isdir(root) or not exists(0, len(WORLD.made), lambda i: WORLD.made[i] == root)) and
                (settings.output.directory is None or settings.output.directory != root or fs_isdir(root)))

    def ensures_ghost_names(file, root, settings, header_name, module_name):
        """C12: the title and the module name computed for the page (the two names the Documenter is constructed with):
        prefix + separator + relative path when a prefix applies, the .cmake extension dropped unless the option keeps it.
        (A relative path that EQUALS the separator string is replaced by the bare prefix - the code's special case.)"""
        return ((settings.rst.prefix is not None and rel_name(file, root) == settings.rst.module_path_separator) or
                (header_name == page_name(settings.rst.prefix, settings.rst.module_path_separator, rel_name(file, root),
                                          settings.rst.file_extensions_in_titles) and
                 module_name == page_name(settings.rst.prefix, settings.rst.module_path_separator, rel_name(file, root),
                                          settings.rst.file_extensions_in_modules)))

    def ensures_stdout(file, root, settings):
        """no output directory: exactly one print, no file, no directory"""
        return (settings.output.directory is not None or
                (len(WORLD.out) == len(old.WORLD.out) + 1 and
                 forall(0, len(old.WORLD.out), lambda i: WORLD.out[i] == old.WORLD.out[i])))

    def ensures_file(file, root, settings):
        """output directory: it is created if missing, exactly one page is written, nothing is printed"""
        return (settings.output.directory is None or
                (len(WORLD.made) == len(old.WORLD.made) + 1 and WORLD.made[-1] == settings.output.directory and
                 len(WORLD.wpaths) == len(old.WORLD.wpaths) + 1 and
                 WORLD.wpaths[-1] == page_path(settings.output.directory, file, root).strip() and
                 len(WORLD.wdata) == len(old.WORLD.wdata) + 1 and
                 forall(0, len(old.WORLD.made), lambda i: WORLD.made[i] == old.WORLD.made[i]) and
                 forall(0, len(old.WORLD.wpaths), lambda i: WORLD.wpaths[i] == old.WORLD.wpaths[i]) and
                 forall(0, len(old.WORLD.wdata), lambda i: WORLD.wdata[i] == old.WORLD.wdata[i])))
    modifies = ["items(WORLD.out) if settings.output.directory is None else None",
                "items(WORLD.wpaths) if settings.output.directory is not None else None",
                "items(WORLD.wdata) if settings.output.directory is not None else None",
                "items(WORLD.made) if settings.output.directory is not None else None"]


# ================================================================ document(): the directory walk (C13-C15, C17, C18)
OWNED_LIST_FIELDS += ["PathSpec.g_patterns", "InputSettings.exclude_filters", "RSTSettings.headers"]


@spec
def norm_input(input_file: str) -> str:
    """the input path as document() uses it: absolute, a directory with a trailing separator"""
    return (path_join(path_abspath(input_file), "") if fs_isdir(path_abspath(input_file))
            else path_abspath(input_file))


@spec
def keepd(spec: "ref:PathSpec", root: str, d: str) -> bool:
    """C15: a sub-directory is kept iff its path, with a trailing separator, matches no exclude pattern"""
    return not spec_excl(spec, path_join(root, path_join(d, "")))


@spec
def keepf(spec: "ref:PathSpec", root: str, f: str) -> bool:
    """C15: a file is kept iff its path matches no exclude pattern"""
    return not spec_excl(spec, path_join(root, f))


@spec(opaque=True, reads=["f:DirEntry.path", "f:DirEntry.g_isfile"])
def has_cmake(spec: "ref:PathSpec", p: str) -> bool:
    """C13 (auto-exclusion): directory p directly contains a regular, non-excluded file whose name ends in .cmake"""
    return exists(0, len(fs_scandir(p)), lambda m: fs_scandir(p)[m].g_isfile and
                  fs_scandir(p)[m].path.endswith(".cmake") and not spec_excl(spec, fs_scandir(p)[m].path))


@spec
def keepc(spec: "ref:PathSpec", root: str, d: str) -> bool:
    return has_cmake(spec, path_join(root, d))


@spec
def is_cm(f: str) -> bool:
    """C13: the .cmake extension, matched case-insensitively"""
    return f.lower().endswith(".cmake")


@lemma
def nkd_nonneg(spec: "ref:PathSpec", root: str, l: "list[str]", k: int):
    props("C15", "C13")
    requires(k >= 0)
    ensures(nkd(spec, root, l, k) >= 0)
    induction(k)


@spec(nonneg=True)
def nkd(spec: "ref:PathSpec", root: str, l: "list[str]", k: int) -> int:
    """how many of the first k names are kept sub-directories"""
    return 0 if k <= 0 else nkd(spec, root, l, k - 1) + (1 if keepd(spec, root, l[k - 1]) else 0)


@lemma
def nkf_nonneg(spec: "ref:PathSpec", root: str, l: "list[str]", k: int):
    props("C15", "C13")
    requires(k >= 0)
    ensures(nkf(spec, root, l, k) >= 0)
    induction(k)


@spec(nonneg=True)
def nkf(spec: "ref:PathSpec", root: str, l: "list[str]", k: int) -> int:
    """how many of the first k names are kept files"""
    return 0 if k <= 0 else nkf(spec, root, l, k - 1) + (1 if keepf(spec, root, l[k - 1]) else 0)


@lemma
def nkc_nonneg(spec: "ref:PathSpec", root: str, l: "list[str]", k: int):
    props("C15", "C13")
    requires(k >= 0)
    ensures(nkc(spec, root, l, k) >= 0)
    induction(k)


@spec(nonneg=True)
def nkc(spec: "ref:PathSpec", root: str, l: "list[str]", k: int) -> int:
    """how many of the first k sub-directories directly contain a CMake file"""
    return 0 if k <= 0 else nkc(spec, root, l, k - 1) + (1 if keepc(spec, root, l[k - 1]) else 0)


@lemma
def ncm_nonneg(l: "list[str]", k: int):
    props("C13", "C14", "C18")
    requires(k >= 0)
    ensures(ncm(l, k) >= 0)
    induction(k)


@spec(nonneg=True)
def ncm(l: "list[str]", k: int) -> int:
    """how many of the first k names are CMake files"""
    return 0 if k <= 0 else ncm(l, k - 1) + (1 if is_cm(l[k - 1]) else 0)


@spec
def index_path(out: str, root: str, top: str) -> str:
    """C13/C14: one index.rst per processed directory, at the directory's relative path below the output directory"""
    return path_join(path_join(out, path_relpath(root, top)), "index.rst")


@spec
def world_same(n_w: int, n_m: int, n_o: int) -> bool:
    return len(WORLD.wpaths) == n_w and len(WORLD.wdata) == n_w and len(WORLD.made) == n_m and len(WORLD.out) == n_o


@spec
def toctree_shape(t: "ref:Directive") -> bool:
    """the toctree directive as document() builds it: heading, the one option maxdepth=2, then only text entries"""
    return (typeof(t, "Directive") and t.title == "toctree" and len(t.document) >= 1 and
            typeof(t.document[0], "DirectiveHeading") and
            len(t.options) == 1 and typeof(t.options[0], "Option") and
            cast(t.options[0], "Option").option_string == indent_of(t.indent) + ":maxdepth: 2" and
            forall(1, len(t.document), lambda i: typeof(t.document[i], "Paragraph")))


@spec
def entry_text(t: "ref:Directive", i: int, txt: str) -> bool:
    """position i of the toctree's content is the one-line entry txt"""
    return typeof(t.document[i], "Paragraph") and cast(t.document[i], "Paragraph").text == txt


@spec
def index_title(prefix: str, sep: str, rel: str) -> str:
    """C14: an index page is titled after its directory: the prefix for the top directory, prefix + separator +
    relative path below it"""
    return prefix if rel == "." else prefix + sep + rel


@spec
def step_processed(auto: bool, kept: "list[str]") -> bool:
    """C13: with auto-exclusion on, a directory without any kept file named *.cmake is skipped (the walk goes on below it)"""
    return not auto or exists(0, len(kept), lambda q: kept[q].endswith(".cmake"))


@lemma
def index_tree(w: "ref:RSTWriter", t: "ref:Directive"):
    """an index page - a heading and one well-formed directive - is a well-formed document tree"""
    props("C14", "C13", "C18")
    requires(typeof(w, "RSTWriter") and len(w.document) == 2 and typeof(w.document[0], "Heading") and
             same(w.document[1], t) and typeof(t, "Directive") and tree_ok(t))
    ensures(tree_ok(w))


@contract("cminx:document")
class document_c:
    """C15 (whole-input exclusion, pruning), C13 (pages and index files of one walk step, recursion cut-off, auto-exclusion),
    C14 (index content), C18 (every write below the output directory / stdout only), C12 (default prefix), C06 (missing
    input).  Per walk step facts are `step` clauses of loop 0; how the steps compose is os.walk's (trusted) contract."""
    props = ["C13", "C14", "C15", "C17", "C18"]
    types = {"input_file": "str", "settings": "ref:Settings", "output_path": "opt[str]", "prefix": "opt[str]",
             "recursive": "bool", "input_path": "str", "root": "str", "subdirs": "list[str]",
             "filenames": "list[str]", "rel_path": "str", "path": "str", "last_dir_element": "str",
             "new_settings": "ref:Settings", "spec": "ref:PathSpec", "index": "ref:RSTWriter", "toctree": "ref:Directive"}
    raises = {"Exception": lambda input_file: True, "SystemExit": lambda input_file: not fs_exists(norm_input(input_file))}
    raises_exact = False

    def requires(input_file, settings):
        return (len(header_chars(settings)) >= 1 and
                not exists(0, len(WORLD.made), lambda i: WORLD.made[i] == path_abspath(input_file)) and
                not exists(0, len(WORLD.made), lambda i: WORLD.made[i] == path_join(path_abspath(input_file), "")))

    def ensures_append_only(input_file, settings):
        """C18: what earlier inputs of the same run wrote is left alone"""
        return (len(WORLD.wpaths) >= len(old.WORLD.wpaths) and len(WORLD.made) >= len(old.WORLD.made) and
                len(WORLD.out) >= len(old.WORLD.out) and
                forall(0, len(old.WORLD.wpaths), lambda i: WORLD.wpaths[i] == old.WORLD.wpaths[i]) and
                forall(0, len(old.WORLD.wdata), lambda i: WORLD.wdata[i] == old.WORLD.wdata[i]) and
                forall(0, len(old.WORLD.out), lambda i: WORLD.out[i] == old.WORLD.out[i]))

    def ensures_excluded_input(input_file, settings):
        """C15: an input path that is itself excluded produces no output at all"""
        return (not excluded(settings.input.exclude_filters, norm_input(input_file)) or
                (len(WORLD.wpaths) == len(old.WORLD.wpaths) and len(WORLD.made) == len(old.WORLD.made) and
                 len(WORLD.out) == len(old.WORLD.out)))

    def ensures_missing_input(input_file, settings):
        """C06: a normal return means the input existed (or was excluded)"""
        return excluded(settings.input.exclude_filters, norm_input(input_file)) or fs_exists(norm_input(input_file))

    def ensures_lone_file(input_file, settings):
        """C18/C13: a lone input file: exactly its page below the output directory, or exactly one print"""
        return (excluded(settings.input.exclude_filters, norm_input(input_file)) or
                not fs_isfile(norm_input(input_file)) or
                (len(WORLD.wpaths) == len(old.WORLD.wpaths) and len(WORLD.made) == len(old.WORLD.made) and
                 len(WORLD.out) == len(old.WORLD.out) + 1
                 if settings.output.directory is None else
                 len(WORLD.out) == len(old.WORLD.out) and len(WORLD.made) == len(old.WORLD.made) + 2 and
                 WORLD.made[len(old.WORLD.made)] == settings.output.directory and
                 WORLD.made[len(old.WORLD.made) + 1] == settings.output.directory and
                 len(WORLD.wpaths) == len(old.WORLD.wpaths) + 1 and
                 WORLD.wpaths[-1] == page_path(settings.output.directory, norm_input(input_file),
                                               norm_input(input_file)).strip()))

    def ensures_ghost_prefix(input_file, settings, new_settings, input_path):
        """C12: in directory mode the prefix handed down is the configured one, by default the directory's name"""
        return (excluded(settings.input.exclude_filters, norm_input(input_file)) or
                not fs_isdir(norm_input(input_file)) or
                new_settings.rst.prefix == (settings.rst.prefix if settings.rst.prefix is not None
                                            else path_basename(path_normpath(norm_input(input_file)))))
    modifies = ["items(WORLD.out) if settings.output.directory is None else None",
                "items(WORLD.wpaths) if settings.output.directory is not None else None",
                "items(WORLD.wdata) if settings.output.directory is not None else None",
                "items(WORLD.made) if settings.output.directory is not None else None"]
    loops = {
        # ---- the walk: cross-step facts in the invariant, per-step facts in the step clauses
        0: Loop(inv=lambda settings, new_settings, spec, input_path, prefix, output_path, recursive:
                prefix is not None and
                len(WORLD.wpaths) >= len(entry.WORLD.wpaths) and len(WORLD.made) >= len(entry.WORLD.made) and
                len(WORLD.out) >= len(entry.WORLD.out) and len(WORLD.wdata) >= len(entry.WORLD.wdata) and
                forall(0, len(entry.WORLD.wpaths), lambda i: WORLD.wpaths[i] == entry.WORLD.wpaths[i]) and
                forall(0, len(entry.WORLD.wdata), lambda i: WORLD.wdata[i] == entry.WORLD.wdata[i]) and
                forall(0, len(entry.WORLD.out), lambda i: WORLD.out[i] == entry.WORLD.out[i]),
                modifies=["items(WORLD.out) if output_path is None else None",
                          "items(WORLD.wpaths) if output_path is not None else None",
                          "items(WORLD.wdata) if output_path is not None else None",
                          "items(WORLD.made) if output_path is not None else None"],
                step=[
                    # C15: what is left in the walk's own directory list (os.walk descends into exactly these)
                    lambda settings, spec, root:
                    forall(0, len(cur(iter0.subdirs)), lambda q:
                           keepd(spec, root, cur(iter0.subdirs)[q]) and
                           (not settings.input.auto_exclude_directories_without_cmake or
                            keepc(spec, root, cur(iter0.subdirs)[q]))),
                    lambda settings, spec, root:
                    forall(0, len(iter0.subdirs), lambda j:
                           not (keepd(spec, root, iter0.subdirs[j]) and
                                (not settings.input.auto_exclude_directories_without_cmake or
                                 keepc(spec, root, iter0.subdirs[j]))) or
                           exists(0, len(cur(iter0.subdirs)), lambda q: cur(iter0.subdirs)[q] == iter0.subdirs[j])),
                    # C15: the files that survive
                    lambda spec, root:
                    forall(0, len(cur(iter0.filenames)), lambda q: keepf(spec, root, cur(iter0.filenames)[q])),
                    lambda spec, root:
                    forall(0, len(iter0.filenames), lambda j:
                           not keepf(spec, root, iter0.filenames[j]) or
                           exists(0, len(cur(iter0.filenames)), lambda q: cur(iter0.filenames)[q] == iter0.filenames[j])),
                    # C13: a directory skipped by auto-exclusion leaves no trace (the walk goes on below it)
                    lambda settings:
                    step_processed(settings.input.auto_exclude_directories_without_cmake, cur(iter0.filenames)) or
                    (len(WORLD.wpaths) == len(iter0.WORLD.wpaths) and len(WORLD.wdata) == len(iter0.WORLD.wdata) and
                     len(WORLD.made) == len(iter0.WORLD.made) and len(WORLD.out) == len(iter0.WORLD.out)),
                    # C17/C18/C13: the files handled are exactly the kept ones, in sorted name order
                    lambda settings, filenames:
                    not step_processed(settings.input.auto_exclude_directories_without_cmake, cur(iter0.filenames)) or
                    (len(filenames) == len(cur(iter0.filenames)) and
                     forall(0, len(filenames) - 1, lambda i: str_le(filenames[i], filenames[i + 1])) and
                     forall(0, len(filenames), lambda m: exists(0, len(cur(iter0.filenames)),
                                                                lambda q: cur(iter0.filenames)[q] == filenames[m])) and
                     forall(0, len(cur(iter0.filenames)), lambda q: exists(0, len(filenames),
                                                                          lambda m: filenames[m] == cur(iter0.filenames)[q]))),
                    # C13/C18 (output directory): the directory is created below the output directory, one index.rst is
                    # written there, then one page per CMake file (extension matched case-insensitively) at its
                    # relative path - and nothing else; nothing is printed
                    lambda settings, filenames, output_path, root, input_path:
                    output_path is None or
                    not step_processed(settings.input.auto_exclude_directories_without_cmake, cur(iter0.filenames)) or
                    (len(WORLD.out) == len(iter0.WORLD.out) and
                     len(WORLD.made) == len(iter0.WORLD.made) + 1 + ncm(filenames, len(filenames)) and
                     WORLD.made[len(iter0.WORLD.made)] == path_join(output_path, path_relpath(root, input_path)) and
                     forall(len(iter0.WORLD.made) + 1, len(WORLD.made), lambda i: WORLD.made[i] == output_path) and
                     len(WORLD.wpaths) == len(iter0.WORLD.wpaths) + 1 + ncm(filenames, len(filenames)) and
                     len(WORLD.wdata) == len(iter0.WORLD.wdata) + 1 + ncm(filenames, len(filenames)) and
                     WORLD.wpaths[len(iter0.WORLD.wpaths)] == index_path(output_path, root, input_path).strip() and
                     forall(0, len(filenames), lambda m: not is_cm(filenames[m]) or
                            WORLD.wpaths[len(iter0.WORLD.wpaths) + 1 + ncm(filenames, m)] ==
                            page_path(output_path, path_join(root, filenames[m]), input_path).strip(),
                            pattern=lambda m: filenames[m])),
                    # C18 (no output directory): no file, no directory; one print per CMake file, index pages are not printed
                    lambda settings, filenames, output_path:
                    output_path is not None or
                    not step_processed(settings.input.auto_exclude_directories_without_cmake, cur(iter0.filenames)) or
                    (len(WORLD.out) == len(iter0.WORLD.out) + ncm(filenames, len(filenames)) and
                     len(WORLD.wpaths) == len(iter0.WORLD.wpaths) and len(WORLD.made) == len(iter0.WORLD.made)),
                    # C14: the index page: title, one toctree (maxdepth 2) listing '<sub>/index.rst' for exactly the
                    # sub-directories the walk will descend into (recursive mode only), then the base name of every
                    # page written for this directory, each once
                    lambda settings, filenames, subdirs, output_path, root, input_path, prefix, recursive, index, toctree, rel_path:
                    output_path is None or
                    not step_processed(settings.input.auto_exclude_directories_without_cmake, cur(iter0.filenames)) or
                    (rel_path == path_relpath(root, input_path) and
                     index.title == index_title(prefix, settings.rst.module_path_separator, rel_path) and
                     len(index.document) == 2 and same(index.document[1], toctree) and toctree_shape(toctree) and
                     len(toctree.document) == 1 + (len(subdirs) if recursive else 0) + ncm(filenames, len(filenames)) and
                     forall(0, len(subdirs) if recursive else 0,
                            lambda m: entry_text(toctree, 1 + m, subdirs[m] + "/index.rst")) and
                     forall(0, len(filenames), lambda j: not is_cm(filenames[j]) or
                            entry_text(toctree, 1 + (len(subdirs) if recursive else 0) + ncm(filenames, j),
                                       stem(filenames[j])), pattern=lambda j: filenames[j]) and
                     WORLD.wdata[len(iter0.WORLD.wdata)] == writer_text(index) and
                     len(subdirs) == len(cur(iter0.subdirs)) and
                     forall(0, len(subdirs), lambda m: exists(0, len(cur(iter0.subdirs)),
                                                              lambda q: cur(iter0.subdirs)[q] == subdirs[m])) and
                     forall(0, len(cur(iter0.subdirs)), lambda q: exists(0, len(subdirs),
                                                                        lambda m: subdirs[m] == cur(iter0.subdirs)[q]))),
                    # C13: without -r the walk ends after its first step, whether that directory was processed or skipped
                    lambda recursive: recursive or _broke,
                ]),
        # ---- exclusion of sub-directories: subdirs = kept prefix ++ untouched rest
        1: Loop(inv=lambda spec, root, subdirs, _it, _k:
                distinct_strs(subdirs) and _k <= len(_it) and
                len(_it) == len(iter0.subdirs) and forall(0, len(_it), lambda j: _it[j] == iter0.subdirs[j], pattern=lambda j: _it[j]) and
                len(subdirs) == nkd(spec, root, _it, _k) + (len(_it) - _k) and
                forall(0, nkd(spec, root, _it, _k), lambda q: keepd(spec, root, subdirs[q])) and
                forall(_k, len(_it), lambda t: subdirs[nkd(spec, root, _it, _k) + (t - _k)] == _it[t],
                       pattern=lambda t: _it[t]) and
                forall(0, _k, lambda j: not keepd(spec, root, _it[j]) or
                       (nkd(spec, root, _it, j) < nkd(spec, root, _it, _k) and
                        subdirs[nkd(spec, root, _it, j)] == _it[j]), pattern=lambda j: _it[j]),
                modifies=["items(subdirs)"]),
        2: Loop(inv=lambda spec, root, filenames, _it, _k:
                distinct_strs(filenames) and _k <= len(_it) and
                len(_it) == len(iter0.filenames) and forall(0, len(_it), lambda j: _it[j] == iter0.filenames[j], pattern=lambda j: _it[j]) and
                len(filenames) == nkf(spec, root, _it, _k) + (len(_it) - _k) and
                forall(0, nkf(spec, root, _it, _k), lambda q: keepf(spec, root, filenames[q])) and
                forall(_k, len(_it), lambda t: filenames[nkf(spec, root, _it, _k) + (t - _k)] == _it[t],
                       pattern=lambda t: _it[t]) and
                forall(0, _k, lambda j: not keepf(spec, root, _it[j]) or
                       (nkf(spec, root, _it, j) < nkf(spec, root, _it, _k) and
                        filenames[nkf(spec, root, _it, j)] == _it[j]), pattern=lambda j: _it[j]),
                modifies=["items(filenames)"]),
        # ---- auto-exclusion of sub-directories without a CMake file
        3: Loop(inv=lambda spec, root, subdirs, _it, _k:
                distinct_strs(subdirs) and _k <= len(_it) and
                forall(0, len(_it), lambda j: keepd(spec, root, _it[j])) and
                len(subdirs) == nkc(spec, root, _it, _k) + (len(_it) - _k) and
                forall(0, nkc(spec, root, _it, _k), lambda q: keepc(spec, root, subdirs[q])) and
                forall(0, len(subdirs), lambda q: keepd(spec, root, subdirs[q])) and
                forall(_k, len(_it), lambda t: subdirs[nkc(spec, root, _it, _k) + (t - _k)] == _it[t],
                       pattern=lambda t: _it[t]) and
                forall(0, _k, lambda j: not keepc(spec, root, _it[j]) or
                       (nkc(spec, root, _it, j) < nkc(spec, root, _it, _k) and
                        subdirs[nkc(spec, root, _it, j)] == _it[j]), pattern=lambda j: _it[j]),
                modifies=["items(subdirs)"]),
        4: Loop(inv=lambda spec, _it, _k:
                forall(0, _k, lambda m: not (_it[m].g_isfile and _it[m].path.endswith(".cmake") and
                                             not spec_excl(spec, _it[m].path))),
                modifies=[]),
        5: Loop(inv=lambda filenames, _k: forall(0, _k, lambda m: not filenames[m].endswith(".cmake")),
                modifies=[]),
        # ---- the index page: '<sub>/index.rst' entries (recursive mode), then one entry per CMake file
        6: Loop(inv=lambda toctree, subdirs, _k:
                toctree_shape(toctree) and len(toctree.document) == 1 + _k and
                forall(0, _k, lambda m: entry_text(toctree, 1 + m, subdirs[m] + "/index.rst")),
                modifies=["items(toctree.document)"], lean=True),
        7: Loop(inv=lambda index, toctree, subdirs, recursive, _it, _k:
                toctree_shape(toctree) and
                len(entry.toctree.document) == 1 + (len(subdirs) if recursive else 0) and
                len(toctree.document) == len(entry.toctree.document) + _k and
                forall(0, len(subdirs) if recursive else 0, lambda m: entry_text(toctree, 1 + m, subdirs[m] + "/index.rst")) and
                forall(0, _k, lambda m: typeof(toctree.document[len(entry.toctree.document) + m], "Paragraph")) and
                hint(stem(_it[_k - 1])) and
                forall(0, _k, lambda m: cast(toctree.document[len(entry.toctree.document) + m], "Paragraph").text == stem(_it[m])) and
                tree_ok(toctree) and index_tree(index, toctree) and tree_ok(index),
                modifies=["items(toctree.document)"], lean=True),
        8: Loop(inv=lambda filenames, _out, _k:
                len(_out) == ncm(filenames, _k) and
                forall(0, _k, lambda j: not is_cm(filenames[j]) or
                       (ncm(filenames, j) < ncm(filenames, _k) and _out[ncm(filenames, j)] == filenames[j]),
                       pattern=lambda j: filenames[j]),
                modifies=["items(_out)"], lean=True),
        # ---- the pages of this directory, in sorted name order
        9: Loop(inv=lambda settings, filenames, output_path, root, input_path, prefix, index, toctree, rel_path, _k:
                fs_isdir(input_path) and
                # (facts about the index page built before this loop, carried to the end of the walk step)
                (output_path is None or
                 (rel_path == path_relpath(root, input_path) and
                  index.title == index_title(prefix, settings.rst.module_path_separator, rel_path) and
                  len(index.document) == 2 and same(index.document[1], toctree))) and
                len(WORLD.out) == len(entry.WORLD.out) + (ncm(filenames, _k) if output_path is None else 0) and
                len(WORLD.wpaths) == len(entry.WORLD.wpaths) + (0 if output_path is None else ncm(filenames, _k)) and
                len(WORLD.wdata) == len(entry.WORLD.wdata) + (0 if output_path is None else ncm(filenames, _k)) and
                len(WORLD.made) == len(entry.WORLD.made) + (0 if output_path is None else ncm(filenames, _k)) and
                forall(0, len(entry.WORLD.wpaths), lambda i: WORLD.wpaths[i] == entry.WORLD.wpaths[i]) and
                forall(0, len(entry.WORLD.wdata), lambda i: WORLD.wdata[i] == entry.WORLD.wdata[i]) and
                forall(0, len(entry.WORLD.out), lambda i: WORLD.out[i] == entry.WORLD.out[i]) and
                forall(0, len(entry.WORLD.made), lambda i: WORLD.made[i] == entry.WORLD.made[i]) and
                (output_path is None or
                 forall(len(entry.WORLD.made), len(WORLD.made), lambda i: WORLD.made[i] == output_path)) and
                (output_path is None or
                 forall(0, _k, lambda m: not is_cm(filenames[m]) or
                        (ncm(filenames, m) < ncm(filenames, _k) and
                         WORLD.wpaths[len(entry.WORLD.wpaths) + ncm(filenames, m)] ==
                         page_path(output_path, path_join(root, filenames[m]), input_path).strip()),
                        pattern=lambda m: filenames[m])),
                lean=True,
                modifies=["items(WORLD.out) if output_path is None else None",
                          "items(WORLD.wpaths) if output_path is not None else None",
                          "items(WORLD.wdata) if output_path is not None else None",
                          "items(WORLD.made) if output_path is not None else None"]),
    }
