"""Contracts for /repo/src/cminx/aggregator.py (C01-C04, C08-C12)."""
from pyvc.dsl import *
from contracts.specs import *
try:
    from cminx.documentation_types import VarType
except ImportError:      # the verifier only parses this file
    pass

FIELD_TYPES = {
    "VariableDocumentation.type": "dyn",
    "AttributeDocumentation.default_value": "opt[str]",
    "DocumentationAggregator.documented_classes_stack": "list[optref:ClassDocumentation]",
    "DocumentationAggregator.logger": "ref",
}
NULLABLE = ["DocumentationAggregator.logger"]


# ================================================================ doccomment cleaning (C01, C04, C12)
@spec
def fh(s: str, i: int) -> int:
    """number of consecutive non-'#' characters of s from position i on"""
    return 0 if i >= len(s) or s[i] == "#" else 1 + fh(s, i + 1)


@spec
def block_indent(last: str) -> int:
    """the block's indentation: what precedes the '#' of the closing line"""
    return fh(last, 0)


@spec
def drop_one_space(s: str) -> str:
    return s[1:] if len(s) > 0 and s[0] == " " else s


@spec
def clean1(line: str, k: int, index: int) -> str:
    """one doccomment line without the block indentation (not on the opening line, which starts at the
    delimiter), without the '#'/bracket leader and without at most one following space"""
    return drop_one_space((line[k:] if index > 0 else line).lstrip("#[]"))


@spec
def cleaned(lines: "list[str]", k: int) -> "list[str]":
    """all lines cleaned; the closing delimiter is stripped from the last one"""
    return [(clean1(lines[j], k, j).rstrip("#]") if j == len(lines) - 1 else clean1(lines[j], k, j))
            for j in range(0, len(lines))]


@spec
def drop_leading_nl(s: str) -> str:
    return s[1:] if s.startswith("\n") else s


@spec
def clean_doc(lines: "list[str]") -> str:
    return drop_leading_nl(join("\n", cleaned(lines, block_indent(lines[-1]))))


@lemma
def join_ext(sep: str, xs: "list[str]", ys: "list[str]", n: int):
    """join respects pointwise equality (T-STRLIB, proved here by induction on the length)"""
    props("C01", "C04", "C12", "C03", "C10", "C11", "C09", "C02")
    requires(0 <= n and n <= len(xs) and n <= len(ys) and forall(0, n, lambda i: xs[i] == ys[i]))
    ensures(join(sep, xs[:n]) == join(sep, ys[:n]))
    induction(n)


@contract("cminx.aggregator:DocumentationAggregator.clean_doc_lines")
class clean_doc_lines_c:
    props = ["C01", "C04", "C12"]
    types = {"cleaned_lines": "list[str]"}
    fuel = {"join": 0}          # join is only compared, never unfolded, in this proof (join_ext carries the induction)

    def requires(lines):
        return len(lines) >= 1

    def ensures_ghost_a(lines, num_spaces):
        return num_spaces == block_indent(lines[-1])

    def ensures_ghost_b(lines, cleaned_lines):
        return join_ext("\n", cleaned_lines, cleaned(lines, block_indent(lines[-1])), len(lines))

    def ensures(lines, result):
        return result == clean_doc(lines)

    def returns(lines):
        return clean_doc(lines)
    modifies = []
    loops = {
        0: Loop(inv=lambda lines, num_spaces, _k:
                num_spaces == _k and fh(lines[-1], 0) == _k + fh(lines[-1], _k),
                modifies=[]),
        1: Loop(inv=lambda lines, cleaned_lines, num_spaces, _k:
                len(cleaned_lines) == _k and
                forall(0, _k, lambda j: cleaned_lines[j] == clean1(lines[j], num_spaces, j)),
                modifies=["items(cleaned_lines)"]),
    }
