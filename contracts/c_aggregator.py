"""Contracts for /repo/src/cminx/aggregator.py (C01-C04, C08-C12)."""
from pyvc.dsl import *
from contracts.specs import *
from contracts.c_rstwriter import *
try:
    from cminx.documentation_types import VarType, TestDocumentation, MethodDocumentation
except ImportError:      # the verifier only parses this file
    pass

FIELD_TYPES = {
    "VariableDocumentation.type": "dyn",
    "AttributeDocumentation.default_value": "opt[str]",
    "DocumentationAggregator.documented_classes_stack": "list[optref:ClassDocumentation]",
    "DocumentationAggregator.logger": "ref",
    "Settings.input": "ref:InputSettings", "Settings.rst": "ref:RSTSettings", "Settings.output": "ref:OutputSettings",
}
NULLABLE = ["DocumentationAggregator.logger"]
# Ownership discipline (assumption): each of these fields holds a list created for it (a `[]` in a constructor)
# that is never stored in another of these fields.
OWNED_LIST_FIELDS = [
    "DocumentationAggregator.documented", "DocumentationAggregator.documented_classes_stack",
    "DocumentationAggregator.definition_command_stack", "DocumentationAggregator.consumed",
    "ClassDocumentation.inner_classes", "ClassDocumentation.constructors", "ClassDocumentation.members",
    "ClassDocumentation.attributes", "RSTWriter.document", "Directive.options",
    "Command_invocationContext.g_sargs", "Command_invocationContext.g_cargs", "Command_invocationContext.g_children",
]


# ================================================================ doccomment cleaning (C01, C04, C12)
@spec
def fh(s: str, i: int) -> int:
    """number of consecutive non-'#' characters of s from position i on"""
    return 0 if i >= len(s) or s[i] == "#" else 1 + fh(s, i + 1)


@spec
def block_indent(last: str) -> int:
    """the block's indentation: what precedes the '#' of the closing line"""
    return fh(last, 0)


@spec
def drop_one_space(s: str) -> str:
    return s[1:] if len(s) > 0 and s[0] == " " else s


@spec
def clean1(line: str, k: int, index: int) -> str:
    """one doccomment line without the block indentation (not on the opening line, which starts at the
    delimiter), without the '#'/bracket leader and without at most one following space"""
    return drop_one_space((line[k:] if index > 0 else line).lstrip("#[]"))


@spec
def cleaned(lines: "list[str]", k: int) -> "list[str]":
    """all lines cleaned; the closing delimiter is stripped from the last one"""
    return [(clean1(lines[j], k, j).rstrip("#]") if j == len(lines) - 1 else clean1(lines[j], k, j))
            for j in range(0, len(lines))]


@spec
def drop_leading_nl(s: str) -> str:
    return s[1:] if s.startswith("\n") else s


@spec
def clean_doc(lines: "list[str]") -> str:
    return drop_leading_nl(join("\n", cleaned(lines, block_indent(lines[-1]))))


@lemma
def join_ext(sep: str, xs: "list[str]", ys: "list[str]", n: int):
    """join respects pointwise equality (T-STRLIB, proved here by induction on the length)"""
    props("C01", "C04", "C12", "C03", "C10", "C11", "C09", "C02")
    requires(0 <= n and n <= len(xs) and n <= len(ys) and forall(0, n, lambda i: xs[i] == ys[i]))
    ensures(join(sep, xs[:n]) == join(sep, ys[:n]))
    induction(n)


@contract("cminx.aggregator:DocumentationAggregator.clean_doc_lines")
class clean_doc_lines_c:
    props = ["C01", "C04", "C12"]
    types = {"cleaned_lines": "list[str]"}
    fuel = {"join": 0}          # join is only compared, never unfolded, in this proof (join_ext carries the induction)

    def requires(lines):
        return len(lines) >= 1

    def ensures_ghost_a(lines, num_spaces):
        return num_spaces == block_indent(lines[-1])

    def ensures_ghost_b(lines, cleaned_lines):
        return join_ext("\n", cleaned_lines, cleaned(lines, block_indent(lines[-1])), len(lines))

    def ensures(lines, result):
        return result == clean_doc(lines)

    def returns(lines):
        return clean_doc(lines)
    modifies = []
    loops = {
        0: Loop(inv=lambda lines, num_spaces, _k:
                num_spaces == _k and fh(lines[-1], 0) == _k + fh(lines[-1], _k),
                modifies=[]),
        1: Loop(inv=lambda lines, cleaned_lines, num_spaces, _k:
                len(cleaned_lines) == _k and
                forall(0, _k, lambda j: cleaned_lines[j] == clean1(lines[j], num_spaces, j)),
                modifies=["items(cleaned_lines)"]),
    }


# ---------------------------------------------------------------- C01 / C04: what cleaning does on the canonical form
# (taken from the property statement; each lemma is one line shape of the canonical doccomment form, for EVERY text t)
@spec
def ws_only(w: str) -> bool:
    """w consists of spaces and tabs only"""
    return forall(0, len(w), lambda i: w[i] == " " or w[i] == "\t")


@lemma
def canon_open(k: int):
    """opening line '#[[[' contributes an empty first line, whatever the block indentation"""
    props("C01", "C04")
    requires(k >= 0 and strip_def(clean1("#[[[", k, 0)))
    ensures(clean1("#[[[", k, 0) == "")


@lemma
def canon_open_text(k: int, t: str):
    """text on the opening line ('#[[[ text', '#[[[ @module name') is kept whole for every indentation (F11)"""
    props("C01", "C04", "C12")
    requires(k >= 0 and strip_def(clean1("#[[[ " + t, k, 0)))
    ensures(clean1("#[[[ " + t, k, 0) == t)


@lemma
def canon_empty(w: str, j: int):
    """a bare leader is an empty line"""
    props("C01", "C04")
    requires(j > 0 and ws_only(w) and strip_def(clean1(w + "#", len(w), j)))
    ensures(clean1(w + "#", len(w), j) == "")


@lemma
def canon_text(w: str, t: str, j: int):
    """'# ' + t yields exactly t: nothing of t is stripped, whatever it starts with"""
    props("C01", "C04")
    requires(j > 0 and ws_only(w) and strip_def(clean1(w + "# " + t, len(w), j)))
    ensures(clean1(w + "# " + t, len(w), j) == t)


@lemma
def canon_close(w: str, j: int):
    """the closing line contributes an empty last line"""
    props("C01", "C04")
    requires(j > 0 and ws_only(w) and strip_def(clean1(w + "#]]", len(w), j).rstrip("#]")))
    ensures(clean1(w + "#]]", len(w), j).rstrip("#]") == "")


@lemma
def canon_indent(w: str, m: int):
    """the indentation measured on the closing line is the length of its white-space prefix"""
    props("C01", "C04")
    requires(m >= 0 and m <= len(w) and ws_only(w))
    ensures((m == 0 or (w[len(w) - m] != "#" and (w + "#]]")[len(w) - m] == w[len(w) - m])) and
            fh(w + "#]]", len(w) - m) == m)
    induction(m)


@lemma
def canon_leaderless(t: str, j: int):
    """doccomments written without leaders: an unindented line starting with a letter is kept whole"""
    props("C01")
    requires(j > 0 and len(t) > 0 and t[0] != "#" and t[0] != "[" and t[0] != "]" and t[0] != " " and
             strip_def(clean1(t, 0, j)))
    ensures(clean1(t, 0, j) == t)


# ================================================================ entries: what each command kind records
@spec
def sargs(ctx: "ref:Command_invocationContext") -> "list[str]":
    """texts of the single (non-parenthesised) arguments in source order"""
    return [a.getText() for a in ctx.single_argument()]


@spec
def lname(ctx: "ref:Command_invocationContext") -> str:
    """the command name, lower-cased: the only form in which the name is ever looked at (C04)"""
    return ctx.Identifier().getText().lower()


@spec
def wf_cmd(ctx: "ref:Command_invocationContext") -> bool:
    """T-ANTLR token shapes: an argument text is never empty; a text that starts with a double quote is a
    quoted argument (ends with one, length >= 2); an unquoted argument cannot end with a double quote"""
    return forall(0, len(sargs(ctx)),
                  lambda i: len(sargs(ctx)[i]) >= 1 and
                  (sargs(ctx)[i][0] != '"' or (len(sargs(ctx)[i]) >= 2 and sargs(ctx)[i][-1] == '"')) and
                  (sargs(ctx)[i][0] == '"' or sargs(ctx)[i][-1] != '"'))


@spec
def grew1(new: "list[ref]", old_: "list[ref]") -> bool:
    """exactly one element was appended; everything before it is untouched and in place"""
    return len(new) == len(old_) + 1 and forall(0, len(old_), lambda i: same(new[i], old_[i]))


@spec
def unchanged(new: "list[ref]", old_: "list[ref]") -> bool:
    return len(new) == len(old_) and forall(0, len(old_), lambda i: same(new[i], old_[i]))


@spec
def popped(new: "list[ref]", old_: "list[ref]") -> bool:
    return len(new) == len(old_) - 1 and forall(0, len(new), lambda i: same(new[i], old_[i]))


@spec
def e_function(agg: "ref:DocumentationAggregator", e: "ref", cmd: "ref:Command_invocationContext", doc: str) -> bool:
    """function entry: first argument is the name, the others are the parameters after the strip pattern
    (never applied to the name); **kwargs flag from the trigger string"""
    return (typeof(e, "FunctionDocumentation") and
            cast(e, "FunctionDocumentation").name == sargs(cmd)[0] and
            cast(e, "FunctionDocumentation").doc == doc and
            cast(e, "FunctionDocumentation").has_kwargs == (agg.settings.input.kwargs_doc_trigger_string in doc) and
            len(cast(e, "FunctionDocumentation").params) == len(sargs(cmd)) - 1 and
            forall(0, len(sargs(cmd)) - 1,
                   lambda i: cast(e, "FunctionDocumentation").params[i] ==
                   re_sub(agg.settings.input.function_parameter_name_strip_regex, sargs(cmd)[i + 1])))


@spec
def e_macro(agg: "ref:DocumentationAggregator", e: "ref", cmd: "ref:Command_invocationContext", doc: str) -> bool:
    return (typeof(e, "MacroDocumentation") and
            cast(e, "MacroDocumentation").name == sargs(cmd)[0] and
            cast(e, "MacroDocumentation").doc == doc and
            cast(e, "MacroDocumentation").has_kwargs == (agg.settings.input.kwargs_doc_trigger_string in doc) and
            len(cast(e, "MacroDocumentation").params) == len(sargs(cmd)) - 1 and
            forall(0, len(sargs(cmd)) - 1,
                   lambda i: cast(e, "MacroDocumentation").params[i] ==
                   re_sub(agg.settings.input.macro_parameter_name_strip_regex, sargs(cmd)[i + 1])))


@spec
def unquote(s: str) -> str:
    """a quoted argument without its surrounding quotes; any other argument as written"""
    return s[1:len(s) - 1] if s[0] == '"' else s


@spec
def e_variable(e: "ref", cmd: "ref:Command_invocationContext", doc: str) -> bool:
    """variable entry (C10): type by value count, default as written"""
    return (typeof(e, "VariableDocumentation") and
            cast(e, "VariableDocumentation").name == sargs(cmd)[0] and
            cast(e, "VariableDocumentation").doc == doc and
            (len(sargs(cmd)) != 1 or (cast(e, "VariableDocumentation").type == VarType.UNSET and
                                      cast(e, "VariableDocumentation").value is None)) and
            (len(sargs(cmd)) != 2 or (cast(e, "VariableDocumentation").type == VarType.STRING and
                                      cast(e, "VariableDocumentation").value == unquote(sargs(cmd)[1]))) and
            (len(sargs(cmd)) <= 2 or (cast(e, "VariableDocumentation").type == VarType.LIST and
                                      cast(e, "VariableDocumentation").value == join(" ", sargs(cmd)[1:]))))


@spec
def e_option(e: "ref", cmd: "ref:Command_invocationContext", doc: str) -> bool:
    return (typeof(e, "OptionDocumentation") and
            cast(e, "OptionDocumentation").name == sargs(cmd)[0] and
            cast(e, "OptionDocumentation").doc == doc and
            cast(e, "OptionDocumentation").type == "bool" and
            cast(e, "OptionDocumentation").help_text == sargs(cmd)[1] and
            cast(e, "OptionDocumentation").value == (sargs(cmd)[2] if len(sargs(cmd)) == 3 else None))


@spec
def e_class(e: "ref", cmd: "ref:Command_invocationContext", doc: str) -> bool:
    return (typeof(e, "ClassDocumentation") and
            cast(e, "ClassDocumentation").name == sargs(cmd)[0] and
            cast(e, "ClassDocumentation").doc == doc and
            cast(e, "ClassDocumentation").superclasses == sargs(cmd)[1:] and
            len(cast(e, "ClassDocumentation").inner_classes) == 0 and
            len(cast(e, "ClassDocumentation").constructors) == 0 and
            len(cast(e, "ClassDocumentation").members) == 0 and
            len(cast(e, "ClassDocumentation").attributes) == 0)


@spec
def last_kw(p: "list[str]", k: int, kw: str) -> int:
    """largest index j < k with p[j] == kw, or -1"""
    return -1 if k <= 0 else (k - 1 if p[k - 1] == kw else last_kw(p, k - 1, kw))


@spec
def name_of(p: "list[str]") -> str:
    """the argument following the (last) NAME keyword; '' without one"""
    return "" if last_kw(p, len(p), "NAME") < 0 else p[last_kw(p, len(p), "NAME") + 1]


@spec
def test_recorded(cmd: "ref:Command_invocationContext") -> bool:
    """a test/section command is recorded unless it is malformed (fewer than two arguments, NAME last)"""
    return len(sargs(cmd)) >= 2 and sargs(cmd)[-1] != "NAME"


@spec
def e_test(e: "ref", cmd: "ref:Command_invocationContext", doc: str) -> bool:
    return (typeof(e, "TestDocumentation") and
            cast(e, "TestDocumentation").name == name_of(sargs(cmd)) and
            cast(e, "TestDocumentation").doc == doc and
            cast(e, "TestDocumentation").expect_fail == (last_kw(sargs(cmd), len(sargs(cmd)), "EXPECTFAIL") >= 0) and
            len(cast(e, "TestDocumentation").params) == 0 and
            not cast(e, "TestDocumentation").is_macro)


@spec
def e_section(e: "ref", cmd: "ref:Command_invocationContext", doc: str) -> bool:
    return (typeof(e, "SectionDocumentation") and
            cast(e, "SectionDocumentation").name == name_of(sargs(cmd)) and
            cast(e, "SectionDocumentation").doc == doc and
            cast(e, "SectionDocumentation").expect_fail ==
            (last_kw(sargs(cmd), len(sargs(cmd)), "EXPECTFAIL") >= 0) and
            len(cast(e, "SectionDocumentation").params) == 0 and
            not cast(e, "SectionDocumentation").is_macro)


@spec
def keep_pos(j: int, idx: int) -> bool:
    """add_test signature: everything except the NAME keyword at idx and the name at idx+1"""
    return idx < 0 or (j != idx and j != idx + 1)


@spec
def drop2(p: "list[str]", idx: int, k: int) -> "list[str]":
    """the first k arguments without positions idx and idx+1, in order"""
    return [] if k <= 0 else ((drop2(p, idx, k - 1) + [p[k - 1]]) if keep_pos(k - 1, idx) else drop2(p, idx, k - 1))


@spec
def e_ctest(e: "ref", cmd: "ref:Command_invocationContext", doc: str) -> bool:
    return (typeof(e, "CTestDocumentation") and
            cast(e, "CTestDocumentation").name == name_of(sargs(cmd)) and
            cast(e, "CTestDocumentation").doc == doc and
            cast(e, "CTestDocumentation").params ==
            drop2(sargs(cmd), last_kw(sargs(cmd), len(sargs(cmd)), "NAME"), len(sargs(cmd))))


@spec
def member_target_ok(agg: "ref:DocumentationAggregator", ctx: "ref:Command_invocationContext") -> bool:
    """a member/attribute declaration is recorded: enough arguments, inside a class that is shown"""
    return (len(sargs(ctx)) >= 2 and len(agg.documented_classes_stack) > 0 and
            agg.documented_classes_stack[-1] is not None)


@spec
def e_method(e: "ref", cmd: "ref:Command_invocationContext", doc: str, ctor: bool) -> bool:
    return (typeof(e, "MethodDocumentation") and
            cast(e, "MethodDocumentation").name == sargs(cmd)[0] and
            cast(e, "MethodDocumentation").doc == doc and
            cast(e, "MethodDocumentation").parent_class == sargs(cmd)[1] and
            cast(e, "MethodDocumentation").param_types == sargs(cmd)[2:] and
            len(cast(e, "MethodDocumentation").params) == 0 and
            cast(e, "MethodDocumentation").is_constructor == ctor and
            not cast(e, "MethodDocumentation").is_macro)


@spec
def e_attr(e: "ref", cmd: "ref:Command_invocationContext", doc: str) -> bool:
    return (typeof(e, "AttributeDocumentation") and
            cast(e, "AttributeDocumentation").name == sargs(cmd)[1] and
            cast(e, "AttributeDocumentation").doc == doc and
            cast(e, "AttributeDocumentation").parent_class == sargs(cmd)[0] and
            cast(e, "AttributeDocumentation").default_value == (sargs(cmd)[2] if len(sargs(cmd)) > 2 else None))


@spec
def is_arg(c: "ref") -> bool:
    return typeof(c, "Single_argumentContext") or typeof(c, "Compound_argumentContext")


@spec
def arg_children(ch: "list[ref]", k: int) -> "list[ref]":
    """the argument nodes (single and parenthesised) among the first k children, in source order"""
    return [] if k <= 0 else ((arg_children(ch, k - 1) + [ch[k - 1]]) if is_arg(ch[k - 1]) else arg_children(ch, k - 1))


@spec
def all_args(ctx: "ref:Command_invocationContext") -> "list[ref]":
    return arg_children(list(ctx.getChildren()), len(list(ctx.getChildren())))


@spec
def e_generic(e: "ref", name: str, cmd: "ref:Command_invocationContext", doc: str) -> bool:
    """generic entry: the (lower-cased) command name and every argument in source order"""
    return (typeof(e, "GenericCommandDocumentation") and
            cast(e, "GenericCommandDocumentation").name == name and
            cast(e, "GenericCommandDocumentation").doc == doc and
            len(cast(e, "GenericCommandDocumentation").params) == len(all_args(cmd)) and
            forall(0, len(all_args(cmd)),
                   lambda i: cast(e, "GenericCommandDocumentation").params[i] ==
                   cast(all_args(cmd)[i], "ParserRuleContext").getText()))


# ---------------------------------------------------------------- lemmas: the entry predicates say what C11 says
@lemma
def name_unique(p: "list[str]", i: int, m: int):
    """C11 as stated: with NAME at position i and no later NAME, the name is the argument following it"""
    props("C11")
    requires(i >= 0 and m >= 0 and i + 1 + m <= len(p) and p[i] == "NAME" and
             forall(i + 1, i + 1 + m, lambda j: p[j] != "NAME"))
    ensures(last_kw(p, i + 1 + m, "NAME") == i)
    induction(m)


@lemma
def kw_exists(p: "list[str]", n: int, kw: str):
    """'shows EXPECTFAIL iff that keyword is among the arguments'"""
    props("C11")
    requires(n >= 0 and n <= len(p))
    ensures((last_kw(p, n, kw) >= 0) == exists(0, n, lambda j: p[j] == kw))
    induction(n)


# ================================================================ the processors
@contract("cminx.aggregator:DocumentationAggregator.process_function")
class process_function_c:
    props = ["C03", "C02", "C01", "C08"]
    raises = {"CMakeSyntaxException": lambda ctx: len(sargs(ctx)) < 1}

    def ensures(self, ctx, docstring):
        return (len(sargs(ctx)) >= 1 and grew1(self.documented, old.self.documented) and
                same(self.documented, old.self.documented) and fresh(self.documented[-1]) and
                fresh(cast(self.documented[-1], "FunctionDocumentation").params) and
                e_function(self, self.documented[-1], ctx, docstring))

    def ensures_stack(self, ctx, docstring):
        return (grew1(self.definition_command_stack, old.self.definition_command_stack) and
                same(self.definition_command_stack, old.self.definition_command_stack) and
                fresh(self.definition_command_stack[-1]) and
                same(self.definition_command_stack[-1].documentation, self.documented[-1]) and
                self.definition_command_stack[-1].should_document)
    modifies = ["items(self.documented)", "items(self.definition_command_stack)"]


@contract("cminx.aggregator:DocumentationAggregator.process_macro")
class process_macro_c:
    props = ["C03", "C02", "C01", "C08"]
    raises = {"CMakeSyntaxException": lambda ctx: len(sargs(ctx)) < 1}

    def ensures(self, ctx, docstring):
        return (len(sargs(ctx)) >= 1 and grew1(self.documented, old.self.documented) and
                same(self.documented, old.self.documented) and fresh(self.documented[-1]) and
                fresh(cast(self.documented[-1], "MacroDocumentation").params) and
                e_macro(self, self.documented[-1], ctx, docstring))

    def ensures_stack(self, ctx, docstring):
        return (grew1(self.definition_command_stack, old.self.definition_command_stack) and
                same(self.definition_command_stack, old.self.definition_command_stack) and
                fresh(self.definition_command_stack[-1]) and
                same(self.definition_command_stack[-1].documentation, self.documented[-1]) and
                self.definition_command_stack[-1].should_document)
    modifies = ["items(self.documented)", "items(self.definition_command_stack)"]


@contract("cminx.aggregator:DocumentationAggregator.process_cmake_parse_arguments")
class process_cmake_parse_arguments_c:
    """marks the definition on top of the open-definition stack, and nothing else (C03; C08: a placeholder of a
    definition that is not listed is NOT transparent - the call never reaches the enclosing definition)"""
    props = ["C03", "C08"]

    def ensures(self, ctx, docstring):
        return (not (len(self.definition_command_stack) > 0 and self.definition_command_stack[-1].should_document and
                     self.definition_command_stack[-1].documentation is not None) or
                self.definition_command_stack[-1].documentation.has_kwargs)

    def ensures_nothing_else(self, ctx, docstring):
        """follows from the frame; stated as a clause so that the native evaluation on real runs checks it too"""
        return (len(self.definition_command_stack) == len(old.self.definition_command_stack) and
                forall(0, len(self.definition_command_stack) - 1,
                       lambda i: self.definition_command_stack[i].documentation is None or
                       same(self.definition_command_stack[i].documentation,
                            self.definition_command_stack[-1].documentation) or
                       self.definition_command_stack[i].documentation.has_kwargs ==
                       old.self.definition_command_stack[i].documentation.has_kwargs))
    modifies = ["self.definition_command_stack[-1].documentation.has_kwargs "
                "if len(self.definition_command_stack) > 0 and self.definition_command_stack[-1].should_document and "
                "self.definition_command_stack[-1].documentation is not None else None"]


@contract("cminx.aggregator:DocumentationAggregator.process_ct_add_test")
class process_ct_add_test_c:
    props = ["C11", "C02", "C01", "C08"]

    def ensures_none(self, ctx, docstring):
        return (test_recorded(ctx) or
                (unchanged(self.documented, old.self.documented) and
                 same(self.documented_awaiting_function_def, old.self.documented_awaiting_function_def)))

    def ensures_entry(self, ctx, docstring):
        return (not test_recorded(ctx) or
                (grew1(self.documented, old.self.documented) and fresh(self.documented[-1]) and
                 fresh(cast(self.documented[-1], "TestDocumentation").params) and
                 e_test(self.documented[-1], ctx, docstring) and
                 same(self.documented_awaiting_function_def, self.documented[-1])))

    def ensures_same_list(self, ctx, docstring):
        return same(self.documented, old.self.documented)
    modifies = ["items(self.documented)", "self.documented_awaiting_function_def"]
    loops = {0: Loop(inv=lambda params, name, expect_fail, _k:
                     name == ("" if last_kw(params, _k, "NAME") < 0 else params[last_kw(params, _k, "NAME") + 1]) and
                     expect_fail == (last_kw(params, _k, "EXPECTFAIL") >= 0) and
                     last_kw(params, _k, "NAME") < len(params) - 1,
                     modifies=[])}


@contract("cminx.aggregator:DocumentationAggregator.process_ct_add_section")
class process_ct_add_section_c:
    props = ["C11", "C02", "C01", "C08"]

    def ensures_none(self, ctx, docstring):
        return (test_recorded(ctx) or
                (unchanged(self.documented, old.self.documented) and
                 same(self.documented_awaiting_function_def, old.self.documented_awaiting_function_def)))

    def ensures_entry(self, ctx, docstring):
        return (not test_recorded(ctx) or
                (grew1(self.documented, old.self.documented) and fresh(self.documented[-1]) and
                 fresh(cast(self.documented[-1], "SectionDocumentation").params) and
                 e_section(self.documented[-1], ctx, docstring) and
                 same(self.documented_awaiting_function_def, self.documented[-1])))

    def ensures_same_list(self, ctx, docstring):
        return same(self.documented, old.self.documented)
    modifies = ["items(self.documented)", "self.documented_awaiting_function_def"]
    loops = {0: Loop(inv=lambda params, name, expect_fail, _k:
                     name == ("" if last_kw(params, _k, "NAME") < 0 else params[last_kw(params, _k, "NAME") + 1]) and
                     expect_fail == (last_kw(params, _k, "EXPECTFAIL") >= 0) and
                     last_kw(params, _k, "NAME") < len(params) - 1,
                     modifies=[])}


@contract("cminx.aggregator:DocumentationAggregator.process_add_test")
class process_add_test_c:
    props = ["C11", "C02", "C01", "C08"]
    types = {"signature": "list[str]"}

    def ensures_none(self, ctx, docstring):
        return test_recorded(ctx) or unchanged(self.documented, old.self.documented)

    def ensures_entry(self, ctx, docstring):
        return (not test_recorded(ctx) or
                (grew1(self.documented, old.self.documented) and fresh(self.documented[-1]) and
                 fresh(cast(self.documented[-1], "CTestDocumentation").params) and
                 e_ctest(self.documented[-1], ctx, docstring)))

    def ensures_same_list(self, ctx, docstring):
        return same(self.documented, old.self.documented)
    modifies = ["items(self.documented)"]
    loops = {0: Loop(inv=lambda params, name, name_index, _k:
                     name_index == last_kw(params, _k, "NAME") and
                     name == ("" if name_index < 0 else params[name_index + 1]) and
                     name_index < len(params) - 1,
                     modifies=[]),
             1: Loop(inv=lambda params, name_index, _out, _k: _out == drop2(params, name_index, _k),
                     modifies=["items(_out)"], elem="str")}


@contract("cminx.aggregator:DocumentationAggregator.process_set")
class process_set_c:
    props = ["C10", "C02", "C01"]
    types = {"values": "list[str]"}

    def requires(self, ctx, docstring):
        return wf_cmd(ctx)

    def ensures_none(self, ctx, docstring):
        return len(sargs(ctx)) >= 1 or unchanged(self.documented, old.self.documented)

    def ensures_entry(self, ctx, docstring):
        return (len(sargs(ctx)) < 1 or
                (grew1(self.documented, old.self.documented) and fresh(self.documented[-1]) and
                 e_variable(self.documented[-1], ctx, docstring)))

    def ensures_same_list(self, ctx, docstring):
        return same(self.documented, old.self.documented)
    modifies = ["items(self.documented)"]


@spec
def option_recorded(cmd: "ref:Command_invocationContext") -> bool:
    return len(sargs(cmd)) == 2 or len(sargs(cmd)) == 3


@contract("cminx.aggregator:DocumentationAggregator.process_option")
class process_option_c:
    props = ["C10", "C02", "C01", "C08"]

    def ensures_none(self, ctx, docstring):
        return option_recorded(ctx) or unchanged(self.documented, old.self.documented)

    def ensures_entry(self, ctx, docstring):
        return (not option_recorded(ctx) or
                (grew1(self.documented, old.self.documented) and fresh(self.documented[-1]) and
                 e_option(self.documented[-1], ctx, docstring)))

    def ensures_same_list(self, ctx, docstring):
        return same(self.documented, old.self.documented)
    modifies = ["items(self.documented)"]


@contract("cminx.aggregator:DocumentationAggregator.process_cpp_class")
class process_cpp_class_c:
    props = ["C09", "C08", "C02", "C01"]

    def ensures_none(self, ctx, docstring):
        return (len(sargs(ctx)) >= 1 or
                (unchanged(self.documented, old.self.documented) and
                 unchanged(self.documented_classes_stack, old.self.documented_classes_stack)))

    def ensures_entry(self, ctx, docstring):
        return (len(sargs(ctx)) < 1 or
                (grew1(self.documented, old.self.documented) and fresh(self.documented[-1]) and
                 fresh(cast(self.documented[-1], "ClassDocumentation").superclasses) and
                 fresh(cast(self.documented[-1], "ClassDocumentation").inner_classes) and
                 fresh(cast(self.documented[-1], "ClassDocumentation").constructors) and
                 fresh(cast(self.documented[-1], "ClassDocumentation").members) and
                 fresh(cast(self.documented[-1], "ClassDocumentation").attributes) and
                 e_class(self.documented[-1], ctx, docstring)))

    def ensures_stack(self, ctx, docstring):
        return (len(sargs(ctx)) < 1 or
                (grew1(self.documented_classes_stack, old.self.documented_classes_stack) and
                 same(self.documented_classes_stack[-1], self.documented[-1]) and
                 same(self.documented_classes_stack, old.self.documented_classes_stack)))

    def ensures_inner(self, ctx, docstring):
        """registered in the inner-class list of the innermost enclosing (shown) class, and of no other"""
        return (len(sargs(ctx)) < 1 or len(old.self.documented_classes_stack) == 0 or
                old.self.documented_classes_stack[-1] is None or
                (grew1(self.documented_classes_stack[-2].inner_classes,
                       old.self.documented_classes_stack[-1].inner_classes) and
                 same(self.documented_classes_stack[-2].inner_classes[-1], self.documented[-1])))

    def ensures_same_list(self, ctx, docstring):
        return same(self.documented, old.self.documented)
    modifies = ["items(self.documented)", "items(self.documented_classes_stack)",
                "items(self.documented_classes_stack[-1].inner_classes) if len(sargs(ctx)) >= 1 and "
                "len(self.documented_classes_stack) > 0 and self.documented_classes_stack[-1] is not None else None"]


@contract("cminx.aggregator:DocumentationAggregator.process_cpp_member")
class process_cpp_member_c:
    """attached to the class on top of the class stack and to no other (C09)"""
    props = ["C09", "C08", "C02", "C01"]
    types = {"params": "list[str]", "param_types": "list[str]"}

    def ensures_none(self, ctx, docstring, is_constructor):
        return (member_target_ok(old.self, ctx) or
                same(self.documented_awaiting_function_def, old.self.documented_awaiting_function_def))

    def ensures_member(self, ctx, docstring, is_constructor):
        return (not member_target_ok(old.self, ctx) or is_constructor or
                (grew1(self.documented_classes_stack[-1].members, old.self.documented_classes_stack[-1].members) and
                 same(self.documented_classes_stack[-1].members[-1], self.documented_awaiting_function_def) and
                 len(self.documented_classes_stack[-1].constructors) ==
                 len(old.self.documented_classes_stack[-1].constructors)))

    def ensures_ctor(self, ctx, docstring, is_constructor):
        return (not member_target_ok(old.self, ctx) or not is_constructor or
                (grew1(self.documented_classes_stack[-1].constructors,
                       old.self.documented_classes_stack[-1].constructors) and
                 same(self.documented_classes_stack[-1].constructors[-1], self.documented_awaiting_function_def) and
                 len(self.documented_classes_stack[-1].members) ==
                 len(old.self.documented_classes_stack[-1].members)))

    def ensures_entry(self, ctx, docstring, is_constructor):
        return (not member_target_ok(old.self, ctx) or
                (fresh(self.documented_awaiting_function_def) and
                 fresh(cast(self.documented_awaiting_function_def, "MethodDocumentation").params) and
                 e_method(self.documented_awaiting_function_def, ctx, docstring, is_constructor)))
    modifies = ["self.documented_awaiting_function_def if member_target_ok(self, ctx) else None",
                "items(self.documented_classes_stack[-1].members) if member_target_ok(self, ctx) and "
                "not is_constructor else None",
                "items(self.documented_classes_stack[-1].constructors) if member_target_ok(self, ctx) and "
                "is_constructor else None"]


@contract("cminx.aggregator:DocumentationAggregator.process_cpp_constructor")
class process_cpp_constructor_c:
    props = ["C09", "C08", "C02", "C01"]

    def ensures_none(self, ctx, docstring):
        return (member_target_ok(old.self, ctx) or
                same(self.documented_awaiting_function_def, old.self.documented_awaiting_function_def))

    def ensures_ctor(self, ctx, docstring):
        return (not member_target_ok(old.self, ctx) or
                (grew1(self.documented_classes_stack[-1].constructors,
                       old.self.documented_classes_stack[-1].constructors) and
                 same(self.documented_classes_stack[-1].constructors[-1], self.documented_awaiting_function_def) and
                 len(self.documented_classes_stack[-1].members) ==
                 len(old.self.documented_classes_stack[-1].members) and
                 fresh(self.documented_awaiting_function_def) and
                 fresh(cast(self.documented_awaiting_function_def, "MethodDocumentation").params) and
                 e_method(self.documented_awaiting_function_def, ctx, docstring, True)))
    modifies = ["self.documented_awaiting_function_def if member_target_ok(self, ctx) else None",
                "items(self.documented_classes_stack[-1].constructors) if member_target_ok(self, ctx) else None"]


@contract("cminx.aggregator:DocumentationAggregator.process_cpp_attr")
class process_cpp_attr_c:
    props = ["C09", "C08", "C02", "C01"]
    types = {"params": "list[str]"}

    def ensures_attr(self, ctx, docstring):
        return (not member_target_ok(old.self, ctx) or
                (grew1(self.documented_classes_stack[-1].attributes,
                       old.self.documented_classes_stack[-1].attributes) and
                 fresh(self.documented_classes_stack[-1].attributes[-1]) and
                 e_attr(self.documented_classes_stack[-1].attributes[-1], ctx, docstring)))
    modifies = ["items(self.documented_classes_stack[-1].attributes) if member_target_ok(self, ctx) else None"]


@contract("cminx.aggregator:DocumentationAggregator.process_generic_command")
class process_generic_command_c:
    """name and every argument (single or parenthesised), as the tree gives them, in source order"""
    props = ["C02", "C01"]

    def ensures(self, command_name, ctx, docstring):
        return (grew1(self.documented, old.self.documented) and same(self.documented, old.self.documented) and
                fresh(self.documented[-1]) and
                fresh(cast(self.documented[-1], "GenericCommandDocumentation").params) and
                e_generic(self.documented[-1], command_name, ctx, docstring))
    modifies = ["items(self.documented)"]
    loops = {0: Loop(inv=lambda ctx, _out, _k: _out == arg_children(list(ctx.getChildren()), _k),
                     modifies=["items(_out)"], elem="ref:ParserRuleContext")}


# ================================================================ the listener callbacks
@contract("cminx.aggregator:DocumentationAggregator.__init__")
class aggregator_init_c:
    props = ["C02", "C03", "C08", "C09", "C17"]
    types = {"settings": "ref:Settings"}

    def ensures(self, settings):
        return (same(self.settings, settings) and
                fresh(self.documented) and len(self.documented) == 0 and
                fresh(self.documented_classes_stack) and len(self.documented_classes_stack) == 0 and
                self.documented_awaiting_function_def is None and
                fresh(self.definition_command_stack) and len(self.definition_command_stack) == 0 and
                fresh(self.consumed) and len(self.consumed) == 0)
    modifies = ["fields(self)"]


@spec
def doc_of(dc: "ref:Documented_commandContext") -> str:
    """the cleaned text of the doccomment of a documented command (what every processor must be handed)"""
    return clean_doc(dc.bracket_doccomment().getText().split("\n"))


@spec
def is_consumed(agg: "ref:DocumentationAggregator", ctx: "ref") -> bool:
    """the parse-tree node was already handled through its doccomment (identity, A6)"""
    return exists(0, len(agg.consumed), lambda i: same(agg.consumed[i], ctx))


@spec
def top_class(agg: "ref:DocumentationAggregator") -> "ref:ClassDocumentation":
    return agg.documented_classes_stack[-1]


@contract("cminx.aggregator:DocumentationAggregator.enterDocumented_command")
class enterDocumented_command_c:
    """Pairs a doccomment with its command: the processor chosen by the lower-cased command name is handed
    exactly the cleaned doccomment text and records one entry of its kind (C01 K2, C02, C12)."""
    props = ["C01", "C02", "C03", "C04", "C09", "C10", "C11", "C12"]
    types = {"cleaned_doc": "str", "lines": "list[str]"}
    raises = {"CMakeSyntaxException": lambda ctx:
              (lname(ctx.command_invocation()) == "function" or lname(ctx.command_invocation()) == "macro") and
              len(sargs(ctx.command_invocation())) < 1}

    def requires(self, ctx):
        return wf_cmd(ctx.command_invocation())

    def ensures_consumed(self, ctx):
        return (len(self.consumed) == len(old.self.consumed) + 3 and
                same(self.consumed[-3], ctx.bracket_doccomment()) and
                same(self.consumed[-2], ctx.command_invocation()) and
                same(self.consumed[-1], ctx.bracket_doccomment()) and
                forall(0, len(old.self.consumed), lambda i: same(self.consumed[i], old.self.consumed[i])))

    def ensures_function(self, ctx):
        return (lname(ctx.command_invocation()) != "function" or
                (grew1(self.documented, old.self.documented) and
                 e_function(self, self.documented[-1], ctx.command_invocation(), doc_of(ctx)) and
                 grew1(self.definition_command_stack, old.self.definition_command_stack) and
                 same(self.definition_command_stack[-1].documentation, self.documented[-1]) and
                 self.definition_command_stack[-1].should_document))

    def ensures_macro(self, ctx):
        return (lname(ctx.command_invocation()) != "macro" or
                (grew1(self.documented, old.self.documented) and
                 e_macro(self, self.documented[-1], ctx.command_invocation(), doc_of(ctx)) and
                 grew1(self.definition_command_stack, old.self.definition_command_stack) and
                 same(self.definition_command_stack[-1].documentation, self.documented[-1]) and
                 self.definition_command_stack[-1].should_document))

    def ensures_set(self, ctx):
        return (lname(ctx.command_invocation()) != "set" or len(sargs(ctx.command_invocation())) < 1 or
                (grew1(self.documented, old.self.documented) and
                 e_variable(self.documented[-1], ctx.command_invocation(), doc_of(ctx))))

    def ensures_option(self, ctx):
        return (lname(ctx.command_invocation()) != "option" or not option_recorded(ctx.command_invocation()) or
                (grew1(self.documented, old.self.documented) and
                 e_option(self.documented[-1], ctx.command_invocation(), doc_of(ctx))))

    def ensures_class(self, ctx):
        return (lname(ctx.command_invocation()) != "cpp_class" or len(sargs(ctx.command_invocation())) < 1 or
                (grew1(self.documented, old.self.documented) and
                 e_class(self.documented[-1], ctx.command_invocation(), doc_of(ctx)) and
                 grew1(self.documented_classes_stack, old.self.documented_classes_stack) and
                 same(self.documented_classes_stack[-1], self.documented[-1])))

    def ensures_test(self, ctx):
        return (lname(ctx.command_invocation()) != "ct_add_test" or not test_recorded(ctx.command_invocation()) or
                (grew1(self.documented, old.self.documented) and
                 e_test(self.documented[-1], ctx.command_invocation(), doc_of(ctx)) and
                 same(self.documented_awaiting_function_def, self.documented[-1])))

    def ensures_section(self, ctx):
        return (lname(ctx.command_invocation()) != "ct_add_section" or not test_recorded(ctx.command_invocation()) or
                (grew1(self.documented, old.self.documented) and
                 e_section(self.documented[-1], ctx.command_invocation(), doc_of(ctx)) and
                 same(self.documented_awaiting_function_def, self.documented[-1])))

    def ensures_ctest(self, ctx):
        return (lname(ctx.command_invocation()) != "add_test" or not test_recorded(ctx.command_invocation()) or
                (grew1(self.documented, old.self.documented) and
                 e_ctest(self.documented[-1], ctx.command_invocation(), doc_of(ctx))))

    def ensures_member(self, ctx):
        return (lname(ctx.command_invocation()) != "cpp_member" or
                not member_target_ok(old.self, ctx.command_invocation()) or
                (unchanged(self.documented, old.self.documented) and
                 grew1(top_class(self).members, top_class(old.self).members) and
                 e_method(top_class(self).members[-1], ctx.command_invocation(), doc_of(ctx), False) and
                 same(self.documented_awaiting_function_def, top_class(self).members[-1])))

    def ensures_ctor(self, ctx):
        return (lname(ctx.command_invocation()) != "cpp_constructor" or
                not member_target_ok(old.self, ctx.command_invocation()) or
                (unchanged(self.documented, old.self.documented) and
                 grew1(top_class(self).constructors, top_class(old.self).constructors) and
                 e_method(top_class(self).constructors[-1], ctx.command_invocation(), doc_of(ctx), True) and
                 same(self.documented_awaiting_function_def, top_class(self).constructors[-1])))

    def ensures_attr(self, ctx):
        return (lname(ctx.command_invocation()) != "cpp_attr" or
                not member_target_ok(old.self, ctx.command_invocation()) or
                (unchanged(self.documented, old.self.documented) and
                 grew1(top_class(self).attributes, top_class(old.self).attributes) and
                 e_attr(top_class(self).attributes[-1], ctx.command_invocation(), doc_of(ctx))))

    def ensures_generic(self, ctx):
        """every other command that carries a doccomment: one generic entry"""
        return (is_processor_name(lname(ctx.command_invocation())) or
                (grew1(self.documented, old.self.documented) and
                 e_generic(self.documented[-1], lname(ctx.command_invocation()), ctx.command_invocation(), doc_of(ctx))))

    def ensures_same_lists(self, ctx):
        return (same(self.documented, old.self.documented) and same(self.consumed, old.self.consumed) and
                same(self.definition_command_stack, old.self.definition_command_stack) and
                same(self.documented_classes_stack, old.self.documented_classes_stack))
    modifies = ["items(self.consumed)", "items(self.documented)", "items(self.definition_command_stack)",
                "items(self.documented_classes_stack)", "self.documented_awaiting_function_def",
                "every_list('LRef')", "every_list('LStr')",
                "every('AbstractCommandDefinitionDocumentation.has_kwargs')"]


@spec
def is_processor_name(n: str) -> bool:
    """command names with a dedicated processor (read from the class on every run by the verifier: dir(self))"""
    return (n == "function" or n == "macro" or n == "set" or n == "option" or n == "cpp_class" or
            n == "cpp_member" or n == "cpp_constructor" or n == "cpp_attr" or n == "ct_add_test" or
            n == "ct_add_section" or n == "add_test" or n == "cmake_parse_arguments")


# ---------------------------------------------------------------- enterCommand_invocation (C02, C03, C08, C09)
@spec
def awaiting_ok(agg: "ref:DocumentationAggregator") -> bool:
    """a pending declaration is a test/section or a class member (the only kinds that wait for a definition)"""
    return (agg.documented_awaiting_function_def is None or
            isinstance(agg.documented_awaiting_function_def, (TestDocumentation, MethodDocumentation)))


@spec
def is_def(n: str) -> bool:
    return n == "function" or n == "macro"


@spec
def is_enddef(n: str) -> bool:
    return n == "endfunction" or n == "endmacro"


@spec
def claims(agg: "ref:DocumentationAggregator", cmd: "ref:Command_invocationContext") -> bool:
    """this function/macro definition implements the immediately preceding member or test declaration"""
    return is_def(lname(cmd)) and agg.documented_awaiting_function_def is not None


@spec
def auto(agg: "ref:DocumentationAggregator", cmd: "ref:Command_invocationContext", kind: str) -> bool:
    """an undocumented command of the given kind reaches its include_undocumented_* decision"""
    return (lname(cmd) == kind and not is_consumed(agg, cmd) and not claims(agg, cmd))


@spec
def all_same(self: "ref:DocumentationAggregator", o: "ref:DocumentationAggregator") -> bool:
    """no entry, no stack frame, no pending declaration changed"""
    return (unchanged(self.documented, o.documented) and
            unchanged(self.documented_classes_stack, o.documented_classes_stack) and
            unchanged(self.definition_command_stack, o.definition_command_stack) and
            same(self.documented_awaiting_function_def, o.documented_awaiting_function_def))


@contract("cminx.aggregator:DocumentationAggregator.enterCommand_invocation")
class enterCommand_invocation_c:
    """Every command passes here.  Case table taken from the statements of C02 / C03 / C08 / C09."""
    props = ["C02", "C03", "C04", "C08", "C09", "C11"]
    clause_props = {"cpp_class_documented_flag_off": ["C08"]}
    types = {"params": "list[str]", "param_names": "list[str]"}
    raises = {"CMakeSyntaxException": lambda self, ctx:
              ((auto(self, ctx, "function") and self.settings.input.include_undocumented_function) or
               (auto(self, ctx, "macro") and self.settings.input.include_undocumented_macro)) and len(sargs(ctx)) < 1}

    def requires(self, ctx):
        return (awaiting_ok(self) and
                (lname(ctx) != "cpp_end_class" or len(self.documented_classes_stack) > 0) and
                (not is_enddef(lname(ctx)) or len(self.definition_command_stack) > 0 or
                 (lname(ctx) == "cpp_class" and not self.settings.input.include_undocumented_cpp_class)))

    # ---- classes
    def ensures_cpp_class_undocumented_flag_off(self, ctx):
        """an undocumented class that is not shown leaves a placeholder so that its members are not attached
        to the enclosing class"""
        return (not (lname(ctx) == "cpp_class" and not self.settings.input.include_undocumented_cpp_class and
                     not is_consumed(old.self, ctx)) or
                (grew1(self.documented_classes_stack, old.self.documented_classes_stack) and
                 self.documented_classes_stack[-1] is None and
                 unchanged(self.documented, old.self.documented) and
                 unchanged(self.definition_command_stack, old.self.definition_command_stack)))

    def ensures_cpp_class_documented_flag_off(self, ctx):
        """C08: the flag only concerns classes WITHOUT a doccomment: a documented class was pushed by its
        processor and must not get a placeholder on top (known finding F5 on the current tree)"""
        return (not (lname(ctx) == "cpp_class" and not self.settings.input.include_undocumented_cpp_class and
                     is_consumed(old.self, ctx)) or
                unchanged(self.documented_classes_stack, old.self.documented_classes_stack))

    def ensures_cpp_end_class(self, ctx):
        return (lname(ctx) != "cpp_end_class" or
                (popped(self.documented_classes_stack, old.self.documented_classes_stack) and
                 unchanged(self.documented, old.self.documented) and
                 unchanged(self.definition_command_stack, old.self.definition_command_stack) and
                 same(self.documented_awaiting_function_def, old.self.documented_awaiting_function_def)))

    # ---- definitions
    def ensures_cmake_parse_arguments(self, ctx):
        """only the definition on top of the open-definition stack is marked"""
        return (lname(ctx) != "cmake_parse_arguments" or
                (all_same(self, old.self) and
                 (not (len(self.definition_command_stack) > 0 and self.definition_command_stack[-1].should_document and
                       self.definition_command_stack[-1].documentation is not None) or
                  self.definition_command_stack[-1].documentation.has_kwargs)))

    def ensures_claimed(self, ctx):
        """the definition that implements the pending declaration: no entry of its own; one frame unless it was
        already pushed through its own doccomment"""
        return (not claims(old.self, ctx) or
                (unchanged(self.documented, old.self.documented) and
                 unchanged(self.documented_classes_stack, old.self.documented_classes_stack) and
                 self.documented_awaiting_function_def is None and
                 (not is_consumed(old.self, ctx) or
                  unchanged(self.definition_command_stack, old.self.definition_command_stack)) and
                 (is_consumed(old.self, ctx) or
                  (grew1(self.definition_command_stack, old.self.definition_command_stack) and
                   self.definition_command_stack[-1].documentation is None and
                   not self.definition_command_stack[-1].should_document))))

    def ensures_claimed_method(self, ctx):
        """C09: parameter names of the definition (without name and self), after the member strip pattern;
        macro flag from the defining command"""
        return (not (claims(old.self, ctx) and isinstance(old.self.documented_awaiting_function_def, MethodDocumentation)) or
                (cast(cur(old.self.documented_awaiting_function_def), "MethodDocumentation").is_macro ==
                 (lname(ctx) == "macro") and
                 len(cast(cur(old.self.documented_awaiting_function_def), "MethodDocumentation").params) ==
                 len(cast(old.self.documented_awaiting_function_def, "MethodDocumentation").params) +
                 (len(sargs(ctx)) - 2 if len(sargs(ctx)) > 2 else 0) and
                 forall(0, len(cast(old.self.documented_awaiting_function_def, "MethodDocumentation").params),
                        lambda i: cast(cur(old.self.documented_awaiting_function_def), "MethodDocumentation").params[i] ==
                        cast(old.self.documented_awaiting_function_def, "MethodDocumentation").params[i]) and
                 forall(0, len(sargs(ctx)) - 2,
                        lambda j: cast(cur(old.self.documented_awaiting_function_def), "MethodDocumentation").params[
                            len(cast(old.self.documented_awaiting_function_def, "MethodDocumentation").params) + j] ==
                        re_sub(self.settings.input.member_parameter_name_strip_regex, sargs(ctx)[j + 2]))))

    def ensures_claimed_test(self, ctx):
        return (not (claims(old.self, ctx) and isinstance(old.self.documented_awaiting_function_def, TestDocumentation)) or
                (cast(cur(old.self.documented_awaiting_function_def), "TestDocumentation").is_macro ==
                 (lname(ctx) == "macro") and
                 len(cast(cur(old.self.documented_awaiting_function_def), "TestDocumentation").params) ==
                 len(cast(old.self.documented_awaiting_function_def, "TestDocumentation").params) +
                 (len(sargs(ctx)) - 2 if len(sargs(ctx)) > 2 else 0) and
                 forall(0, len(sargs(ctx)) - 2,
                        lambda j: cast(cur(old.self.documented_awaiting_function_def), "TestDocumentation").params[
                            len(cast(old.self.documented_awaiting_function_def, "TestDocumentation").params) + j] ==
                        sargs(ctx)[j + 2])))

    def ensures_enddef(self, ctx):
        return (not is_enddef(lname(ctx)) or
                (lname(ctx) == "cpp_class" and not self.settings.input.include_undocumented_cpp_class) or
                (popped(self.definition_command_stack, old.self.definition_command_stack) and
                 unchanged(self.documented, old.self.documented) and
                 unchanged(self.documented_classes_stack, old.self.documented_classes_stack) and
                 same(self.documented_awaiting_function_def, old.self.documented_awaiting_function_def)))

    # ---- undocumented commands of the auto-documented kinds (C02 with defaults, C08 for every flag value)
    def ensures_auto_function_on(self, ctx):
        return (not (auto(old.self, ctx, "function") and self.settings.input.include_undocumented_function) or
                (grew1(self.documented, old.self.documented) and
                 e_function(self, self.documented[-1], ctx, "") and
                 grew1(self.definition_command_stack, old.self.definition_command_stack) and
                 same(self.definition_command_stack[-1].documentation, self.documented[-1]) and
                 self.definition_command_stack[-1].should_document))

    def ensures_auto_function_off(self, ctx):
        return (not (auto(old.self, ctx, "function") and not self.settings.input.include_undocumented_function) or
                (unchanged(self.documented, old.self.documented) and
                 grew1(self.definition_command_stack, old.self.definition_command_stack) and
                 self.definition_command_stack[-1].documentation is None and
                 not self.definition_command_stack[-1].should_document))

    def ensures_auto_macro_on(self, ctx):
        return (not (auto(old.self, ctx, "macro") and self.settings.input.include_undocumented_macro) or
                (grew1(self.documented, old.self.documented) and
                 e_macro(self, self.documented[-1], ctx, "") and
                 grew1(self.definition_command_stack, old.self.definition_command_stack) and
                 same(self.definition_command_stack[-1].documentation, self.documented[-1]) and
                 self.definition_command_stack[-1].should_document))

    def ensures_auto_macro_off(self, ctx):
        return (not (auto(old.self, ctx, "macro") and not self.settings.input.include_undocumented_macro) or
                (unchanged(self.documented, old.self.documented) and
                 grew1(self.definition_command_stack, old.self.definition_command_stack) and
                 self.definition_command_stack[-1].documentation is None and
                 not self.definition_command_stack[-1].should_document))

    def ensures_auto_option(self, ctx):
        return (not auto(old.self, ctx, "option") or
                ((not (self.settings.input.include_undocumented_option and option_recorded(ctx)) or
                  (grew1(self.documented, old.self.documented) and e_option(self.documented[-1], ctx, ""))) and
                 (self.settings.input.include_undocumented_option or all_same(self, old.self))))

    def ensures_auto_class_on(self, ctx):
        return (not (auto(old.self, ctx, "cpp_class") and self.settings.input.include_undocumented_cpp_class and
                     len(sargs(ctx)) >= 1) or
                (grew1(self.documented, old.self.documented) and e_class(self.documented[-1], ctx, "") and
                 grew1(self.documented_classes_stack, old.self.documented_classes_stack) and
                 same(self.documented_classes_stack[-1], self.documented[-1])))

    def ensures_auto_test(self, ctx):
        return (not auto(old.self, ctx, "ct_add_test") or
                ((not (self.settings.input.include_undocumented_ct_add_test and test_recorded(ctx)) or
                  (grew1(self.documented, old.self.documented) and e_test(self.documented[-1], ctx, "") and
                   same(self.documented_awaiting_function_def, self.documented[-1]))) and
                 (self.settings.input.include_undocumented_ct_add_test or all_same(self, old.self))))

    def ensures_auto_section(self, ctx):
        return (not auto(old.self, ctx, "ct_add_section") or
                ((not (self.settings.input.include_undocumented_ct_add_section and test_recorded(ctx)) or
                  (grew1(self.documented, old.self.documented) and e_section(self.documented[-1], ctx, "") and
                   same(self.documented_awaiting_function_def, self.documented[-1]))) and
                 (self.settings.input.include_undocumented_ct_add_section or all_same(self, old.self))))

    def ensures_auto_ctest(self, ctx):
        return (not auto(old.self, ctx, "add_test") or
                ((not (self.settings.input.include_undocumented_add_test and test_recorded(ctx)) or
                  (grew1(self.documented, old.self.documented) and e_ctest(self.documented[-1], ctx, ""))) and
                 (self.settings.input.include_undocumented_add_test or all_same(self, old.self))))

    def ensures_auto_member(self, ctx):
        return (not auto(old.self, ctx, "cpp_member") or
                ((not (self.settings.input.include_undocumented_cpp_member and member_target_ok(old.self, ctx)) or
                  (unchanged(self.documented, old.self.documented) and
                   grew1(top_class(self).members, old.self.documented_classes_stack[-1].members) and
                   e_method(top_class(self).members[-1], ctx, "", False) and
                   same(self.documented_awaiting_function_def, top_class(self).members[-1]))) and
                 (self.settings.input.include_undocumented_cpp_member or all_same(self, old.self))))

    def ensures_auto_ctor(self, ctx):
        return (not auto(old.self, ctx, "cpp_constructor") or
                ((not (self.settings.input.include_undocumented_cpp_constructor and member_target_ok(old.self, ctx)) or
                  (unchanged(self.documented, old.self.documented) and
                   grew1(top_class(self).constructors, old.self.documented_classes_stack[-1].constructors) and
                   e_method(top_class(self).constructors[-1], ctx, "", True) and
                   same(self.documented_awaiting_function_def, top_class(self).constructors[-1]))) and
                 (self.settings.input.include_undocumented_cpp_constructor or all_same(self, old.self))))

    def ensures_auto_attr(self, ctx):
        return (not auto(old.self, ctx, "cpp_attr") or
                ((not (self.settings.input.include_undocumented_cpp_attr and member_target_ok(old.self, ctx)) or
                  (unchanged(self.documented, old.self.documented) and
                   grew1(top_class(self).attributes, old.self.documented_classes_stack[-1].attributes) and
                   e_attr(top_class(self).attributes[-1], ctx, ""))) and
                 (self.settings.input.include_undocumented_cpp_attr or all_same(self, old.self))))

    # ---- everything else produces nothing (C02)
    def ensures_other_commands(self, ctx):
        """commands of any other kind without a doccomment, `set`, and commands already handled through their
        doccomment change nothing"""
        return (not ((not is_processor_name(lname(ctx)) and lname(ctx) != "cpp_end_class" and
                      not is_enddef(lname(ctx))) or lname(ctx) == "set" or lname(ctx) == "generic_command" or
                     (is_consumed(old.self, ctx) and lname(ctx) != "cpp_class" and lname(ctx) != "cmake_parse_arguments"
                      and lname(ctx) != "cpp_end_class" and not is_enddef(lname(ctx)) and not claims(old.self, ctx))) or
                all_same(self, old.self))

    def ensures_same_lists(self, ctx):
        return (same(self.documented, old.self.documented) and same(self.consumed, old.self.consumed) and
                same(self.definition_command_stack, old.self.definition_command_stack) and
                same(self.documented_classes_stack, old.self.documented_classes_stack) and
                unchanged(self.consumed, old.self.consumed))
    modifies = ["items(self.documented)", "items(self.definition_command_stack)",
                "items(self.documented_classes_stack)", "self.documented_awaiting_function_def",
                "every_list('LRef')", "every_list('LStr')",
                "every('AbstractCommandDefinitionDocumentation.has_kwargs')",
                "every('TestDocumentation.is_macro')", "every('MethodDocumentation.is_macro')"]


# ---------------------------------------------------------------- module doccomment (C12, C01)
@spec
def mod_lines(ctx: "ref:Documented_moduleContext") -> "list[str]":
    """the cleaned module doccomment, line by line"""
    return clean_doc(ctx.Module_docstring().getText().split("\n")).split("\n")


@contract("cminx.aggregator:DocumentationAggregator.enterDocumented_module")
class enterDocumented_module_c:
    """the module doccomment becomes one module entry: name from its first line, the rest is its text; nothing
    else is touched (so the text cannot reach the following command)"""
    props = ["C12", "C01", "C02"]
    types = {"cleaned_lines": "list[str]"}

    def ensures(self, ctx):
        return (grew1(self.documented, old.self.documented) and same(self.documented, old.self.documented) and
                fresh(self.documented[-1]) and typeof(self.documented[-1], "ModuleDocumentation") and
                cast(self.documented[-1], "ModuleDocumentation").name ==
                mod_lines(ctx)[0].replace("@module", "").strip() and
                cast(self.documented[-1], "ModuleDocumentation").doc == join("\n", mod_lines(ctx)[1:]))
    modifies = ["items(self.documented)"]


@contract("cminx.aggregator:DocumentationAggregator.enterBracket_doccomment")
class enterBracket_doccomment_c:
    """a doccomment that is not followed by a command produces nothing (C02)"""
    props = ["C02"]
    types = {"ctx": "ref:Bracket_doccommentContext"}

    def ensures(self, ctx):
        return True
    modifies = []
