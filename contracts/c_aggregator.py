"""Contracts for /repo/src/cminx/aggregator.py (C01-C04, C08-C12)."""
from pyvc.dsl import *
from contracts.specs import *
try:
    from cminx.documentation_types import VarType
except ImportError:      # the verifier only parses this file
    pass

FIELD_TYPES = {
    "VariableDocumentation.type": "dyn",
    "AttributeDocumentation.default_value": "opt[str]",
    "DocumentationAggregator.documented_classes_stack": "list[optref:ClassDocumentation]",
    "DocumentationAggregator.logger": "ref",
}
NULLABLE = ["DocumentationAggregator.logger"]
# Ownership discipline (assumption): each of these fields holds a list created for it (a `[]` in a constructor)
# that is never stored in another of these fields.
OWNED_LIST_FIELDS = [
    "DocumentationAggregator.documented", "DocumentationAggregator.documented_classes_stack",
    "DocumentationAggregator.definition_command_stack", "DocumentationAggregator.consumed",
    "ClassDocumentation.inner_classes", "ClassDocumentation.constructors", "ClassDocumentation.members",
    "ClassDocumentation.attributes", "RSTWriter.document", "Directive.options",
    "Command_invocationContext.g_sargs", "Command_invocationContext.g_cargs", "Command_invocationContext.g_children",
]


# ================================================================ doccomment cleaning (C01, C04, C12)
@spec
def fh(s: str, i: int) -> int:
    """number of consecutive non-'#' characters of s from position i on"""
    return 0 if i >= len(s) or s[i] == "#" else 1 + fh(s, i + 1)


@spec
def block_indent(last: str) -> int:
    """the block's indentation: what precedes the '#' of the closing line"""
    return fh(last, 0)


@spec
def drop_one_space(s: str) -> str:
    return s[1:] if len(s) > 0 and s[0] == " " else s


@spec
def clean1(line: str, k: int, index: int) -> str:
    """one doccomment line without the block indentation (not on the opening line, which starts at the
    delimiter), without the '#'/bracket leader and without at most one following space"""
    return drop_one_space((line[k:] if index > 0 else line).lstrip("#[]"))


@spec
def cleaned(lines: "list[str]", k: int) -> "list[str]":
    """all lines cleaned; the closing delimiter is stripped from the last one"""
    return [(clean1(lines[j], k, j).rstrip("#]") if j == len(lines) - 1 else clean1(lines[j], k, j))
            for j in range(0, len(lines))]


@spec
def drop_leading_nl(s: str) -> str:
    return s[1:] if s.startswith("\n") else s


@spec
def clean_doc(lines: "list[str]") -> str:
    return drop_leading_nl(join("\n", cleaned(lines, block_indent(lines[-1]))))


@lemma
def join_ext(sep: str, xs: "list[str]", ys: "list[str]", n: int):
    """join respects pointwise equality (T-STRLIB, proved here by induction on the length)"""
    props("C01", "C04", "C12", "C03", "C10", "C11", "C09", "C02")
    requires(0 <= n and n <= len(xs) and n <= len(ys) and forall(0, n, lambda i: xs[i] == ys[i]))
    ensures(join(sep, xs[:n]) == join(sep, ys[:n]))
    induction(n)


@contract("cminx.aggregator:DocumentationAggregator.clean_doc_lines")
class clean_doc_lines_c:
    props = ["C01", "C04", "C12"]
    types = {"cleaned_lines": "list[str]"}
    fuel = {"join": 0}          # join is only compared, never unfolded, in this proof (join_ext carries the induction)

    def requires(lines):
        return len(lines) >= 1

    def ensures_ghost_a(lines, num_spaces):
        return num_spaces == block_indent(lines[-1])

    def ensures_ghost_b(lines, cleaned_lines):
        return join_ext("\n", cleaned_lines, cleaned(lines, block_indent(lines[-1])), len(lines))

    def ensures(lines, result):
        return result == clean_doc(lines)

    def returns(lines):
        return clean_doc(lines)
    modifies = []
    loops = {
        0: Loop(inv=lambda lines, num_spaces, _k:
                num_spaces == _k and fh(lines[-1], 0) == _k + fh(lines[-1], _k),
                modifies=[]),
        1: Loop(inv=lambda lines, cleaned_lines, num_spaces, _k:
                len(cleaned_lines) == _k and
                forall(0, _k, lambda j: cleaned_lines[j] == clean1(lines[j], num_spaces, j)),
                modifies=["items(cleaned_lines)"]),
    }


# ---------------------------------------------------------------- C01 / C04: what cleaning does on the canonical form
# (taken from the property statement; each lemma is one line shape of the canonical doccomment form, for EVERY text t)
@spec
def ws_only(w: str) -> bool:
    """w consists of spaces and tabs only"""
    return forall(0, len(w), lambda i: w[i] == " " or w[i] == "\t")


@lemma
def canon_open(k: int):
    """opening line '#[[[' contributes an empty first line, whatever the block indentation"""
    props("C01", "C04")
    requires(k >= 0 and strip_def(clean1("#[[[", k, 0)))
    ensures(clean1("#[[[", k, 0) == "")


@lemma
def canon_open_text(k: int, t: str):
    """text on the opening line ('#[[[ text', '#[[[ @module name') is kept whole for every indentation (F11)"""
    props("C01", "C04", "C12")
    requires(k >= 0 and strip_def(clean1("#[[[ " + t, k, 0)))
    ensures(clean1("#[[[ " + t, k, 0) == t)


@lemma
def canon_empty(w: str, j: int):
    """a bare leader is an empty line"""
    props("C01", "C04")
    requires(j > 0 and ws_only(w) and strip_def(clean1(w + "#", len(w), j)))
    ensures(clean1(w + "#", len(w), j) == "")


@lemma
def canon_text(w: str, t: str, j: int):
    """'# ' + t yields exactly t: nothing of t is stripped, whatever it starts with"""
    props("C01", "C04")
    requires(j > 0 and ws_only(w) and strip_def(clean1(w + "# " + t, len(w), j)))
    ensures(clean1(w + "# " + t, len(w), j) == t)


@lemma
def canon_close(w: str, j: int):
    """the closing line contributes an empty last line"""
    props("C01", "C04")
    requires(j > 0 and ws_only(w) and strip_def(clean1(w + "#]]", len(w), j).rstrip("#]")))
    ensures(clean1(w + "#]]", len(w), j).rstrip("#]") == "")


@lemma
def canon_indent(w: str, m: int):
    """the indentation measured on the closing line is the length of its white-space prefix"""
    props("C01", "C04")
    requires(m >= 0 and m <= len(w) and ws_only(w))
    ensures((m == 0 or (w[len(w) - m] != "#" and (w + "#]]")[len(w) - m] == w[len(w) - m])) and
            fh(w + "#]]", len(w) - m) == m)
    induction(m)


@lemma
def canon_leaderless(t: str, j: int):
    """doccomments written without leaders: an unindented line starting with a letter is kept whole"""
    props("C01")
    requires(j > 0 and len(t) > 0 and t[0] != "#" and t[0] != "[" and t[0] != "]" and t[0] != " " and
             strip_def(clean1(t, 0, j)))
    ensures(clean1(t, 0, j) == t)


# ================================================================ the processors
@spec
def sargs(ctx: "ref:Command_invocationContext") -> "list[str]":
    """texts of the single (non-parenthesised) arguments in source order"""
    return [a.getText() for a in ctx.single_argument()]


@spec
def wf_cmd(ctx: "ref:Command_invocationContext") -> bool:
    """T-ANTLR token shapes: an argument text is never empty; a text that starts with a double quote is a
    quoted argument (ends with one, length >= 2); an unquoted argument cannot end with a double quote"""
    return forall(0, len(sargs(ctx)),
                  lambda i: len(sargs(ctx)[i]) >= 1 and
                  (sargs(ctx)[i][0] != '"' or (len(sargs(ctx)[i]) >= 2 and sargs(ctx)[i][-1] == '"')) and
                  (sargs(ctx)[i][0] == '"' or sargs(ctx)[i][-1] != '"'))


@spec
def new_entry(agg: "ref:DocumentationAggregator", oldlen: int) -> "ref:DocumentationType":
    return agg.documented[oldlen]


@contract("cminx.aggregator:DocumentationAggregator.process_function")
class process_function_c:
    props = ["C03", "C02", "C01"]
    types = {"def_params": "list[ref:Single_argumentContext]"}
    raises = {"CMakeSyntaxException": lambda ctx: len(sargs(ctx)) < 1}

    def ensures(self, ctx, docstring):
        return (len(sargs(ctx)) >= 1 and
                appended_ref(self.documented, old.self.documented, self.documented[len(old.self.documented)]) and
                same(self.documented, old.self.documented) and
                fresh(self.documented[len(old.self.documented)]) and
                typeof(self.documented[len(old.self.documented)], "FunctionDocumentation"))

    def ensures_entry(self, ctx, docstring):
        return (cast(self.documented[-1], "FunctionDocumentation").name == sargs(ctx)[0] and
                cast(self.documented[-1], "FunctionDocumentation").doc == docstring and
                cast(self.documented[-1], "FunctionDocumentation").has_kwargs ==
                (self.settings.input.kwargs_doc_trigger_string in docstring) and
                fresh(cast(self.documented[-1], "FunctionDocumentation").params) and
                len(cast(self.documented[-1], "FunctionDocumentation").params) == len(sargs(ctx)) - 1 and
                forall(0, len(sargs(ctx)) - 1,
                       lambda i: cast(self.documented[-1], "FunctionDocumentation").params[i] ==
                       re_sub(self.settings.input.function_parameter_name_strip_regex, sargs(ctx)[i + 1])))

    def ensures_stack(self, ctx, docstring):
        return (appended_ref(self.definition_command_stack, old.self.definition_command_stack,
                             self.definition_command_stack[-1]) and
                same(self.definition_command_stack, old.self.definition_command_stack) and
                fresh(self.definition_command_stack[-1]) and
                same(self.definition_command_stack[-1].documentation, self.documented[-1]) and
                self.definition_command_stack[-1].should_document)
    modifies = ["items(self.documented)", "items(self.definition_command_stack)"]


@contract("cminx.aggregator:DocumentationAggregator.process_macro")
class process_macro_c:
    props = ["C03", "C02", "C01"]
    types = {"def_params": "list[ref:Single_argumentContext]"}
    raises = {"CMakeSyntaxException": lambda ctx: len(sargs(ctx)) < 1}

    def ensures(self, ctx, docstring):
        return (len(sargs(ctx)) >= 1 and
                appended_ref(self.documented, old.self.documented, self.documented[len(old.self.documented)]) and
                same(self.documented, old.self.documented) and
                fresh(self.documented[len(old.self.documented)]) and
                typeof(self.documented[len(old.self.documented)], "MacroDocumentation"))

    def ensures_entry(self, ctx, docstring):
        return (cast(self.documented[-1], "MacroDocumentation").name == sargs(ctx)[0] and
                cast(self.documented[-1], "MacroDocumentation").doc == docstring and
                cast(self.documented[-1], "MacroDocumentation").has_kwargs ==
                (self.settings.input.kwargs_doc_trigger_string in docstring) and
                fresh(cast(self.documented[-1], "MacroDocumentation").params) and
                len(cast(self.documented[-1], "MacroDocumentation").params) == len(sargs(ctx)) - 1 and
                forall(0, len(sargs(ctx)) - 1,
                       lambda i: cast(self.documented[-1], "MacroDocumentation").params[i] ==
                       re_sub(self.settings.input.macro_parameter_name_strip_regex, sargs(ctx)[i + 1])))

    def ensures_stack(self, ctx, docstring):
        return (appended_ref(self.definition_command_stack, old.self.definition_command_stack,
                             self.definition_command_stack[-1]) and
                same(self.definition_command_stack, old.self.definition_command_stack) and
                fresh(self.definition_command_stack[-1]) and
                same(self.definition_command_stack[-1].documentation, self.documented[-1]) and
                self.definition_command_stack[-1].should_document)
    modifies = ["items(self.documented)", "items(self.definition_command_stack)"]


@contract("cminx.aggregator:DocumentationAggregator.process_cmake_parse_arguments")
class process_cmake_parse_arguments_c:
    """marks the definition on top of the open-definition stack, and nothing else (C03)"""
    props = ["C03"]

    def ensures(self, ctx, docstring):
        return (not (len(self.definition_command_stack) > 0 and self.definition_command_stack[-1].should_document and
                     self.definition_command_stack[-1].documentation is not None) or
                self.definition_command_stack[-1].documentation.has_kwargs)
    modifies = ["self.definition_command_stack[-1].documentation.has_kwargs "
                "if len(self.definition_command_stack) > 0 and self.definition_command_stack[-1].should_document and "
                "self.definition_command_stack[-1].documentation is not None else None"]


# ---------------------------------------------------------------- tests (C11)
@spec
def last_kw(p: "list[str]", k: int, kw: str) -> int:
    """largest index j < k with p[j] == kw, or -1"""
    return -1 if k <= 0 else (k - 1 if p[k - 1] == kw else last_kw(p, k - 1, kw))


@spec
def name_of(p: "list[str]") -> str:
    """the argument following the (last) NAME keyword; '' without one"""
    return "" if last_kw(p, len(p), "NAME") < 0 else p[last_kw(p, len(p), "NAME") + 1]


@lemma
def name_unique(p: "list[str]", i: int, m: int):
    """C11 as stated: with NAME exactly at position i (no later NAME), the name is the argument following it"""
    props("C11")
    requires(i >= 0 and m >= 0 and i + 1 + m <= len(p) and p[i] == "NAME" and
             forall(i + 1, i + 1 + m, lambda j: p[j] != "NAME"))
    ensures(last_kw(p, i + 1 + m, "NAME") == i)
    induction(m)


@lemma
def kw_exists(p: "list[str]", n: int, kw: str):
    """'shows EXPECTFAIL iff that keyword is among the arguments'"""
    props("C11")
    requires(n >= 0 and n <= len(p))
    ensures((last_kw(p, n, kw) >= 0) == exists(0, n, lambda j: p[j] == kw))
    induction(n)


@contract("cminx.aggregator:DocumentationAggregator.process_ct_add_test")
class process_ct_add_test_c:
    props = ["C11", "C02", "C01"]

    def ensures_none(self, ctx, docstring):
        return (not (len(sargs(ctx)) < 2 or sargs(ctx)[-1] == "NAME") or
                (len(self.documented) == len(old.self.documented) and
                 same(self.documented_awaiting_function_def, old.self.documented_awaiting_function_def)))

    def ensures_entry(self, ctx, docstring):
        return (len(sargs(ctx)) < 2 or sargs(ctx)[-1] == "NAME" or
                (appended_ref(self.documented, old.self.documented, self.documented[len(old.self.documented)]) and
                 fresh(self.documented[-1]) and typeof(self.documented[-1], "TestDocumentation") and
                 cast(self.documented[-1], "TestDocumentation").name == name_of(sargs(ctx)) and
                 cast(self.documented[-1], "TestDocumentation").doc == docstring and
                 cast(self.documented[-1], "TestDocumentation").expect_fail ==
                 (last_kw(sargs(ctx), len(sargs(ctx)), "EXPECTFAIL") >= 0) and
                 fresh(cast(self.documented[-1], "TestDocumentation").params) and
                 len(cast(self.documented[-1], "TestDocumentation").params) == 0 and
                 not cast(self.documented[-1], "TestDocumentation").is_macro and
                 same(self.documented_awaiting_function_def, self.documented[-1])))

    def ensures_same_list(self, ctx, docstring):
        return same(self.documented, old.self.documented)
    modifies = ["items(self.documented)", "self.documented_awaiting_function_def"]
    loops = {0: Loop(inv=lambda params, name, expect_fail, _k:
                     name == ("" if last_kw(params, _k, "NAME") < 0 else params[last_kw(params, _k, "NAME") + 1]) and
                     expect_fail == (last_kw(params, _k, "EXPECTFAIL") >= 0) and
                     last_kw(params, _k, "NAME") < len(params) - 1,
                     modifies=[])}


@contract("cminx.aggregator:DocumentationAggregator.process_ct_add_section")
class process_ct_add_section_c:
    props = ["C11", "C02", "C01"]

    def ensures_none(self, ctx, docstring):
        return (not (len(sargs(ctx)) < 2 or sargs(ctx)[-1] == "NAME") or
                (len(self.documented) == len(old.self.documented) and
                 same(self.documented_awaiting_function_def, old.self.documented_awaiting_function_def)))

    def ensures_entry(self, ctx, docstring):
        return (len(sargs(ctx)) < 2 or sargs(ctx)[-1] == "NAME" or
                (appended_ref(self.documented, old.self.documented, self.documented[len(old.self.documented)]) and
                 fresh(self.documented[-1]) and typeof(self.documented[-1], "SectionDocumentation") and
                 cast(self.documented[-1], "SectionDocumentation").name == name_of(sargs(ctx)) and
                 cast(self.documented[-1], "SectionDocumentation").doc == docstring and
                 cast(self.documented[-1], "SectionDocumentation").expect_fail ==
                 (last_kw(sargs(ctx), len(sargs(ctx)), "EXPECTFAIL") >= 0) and
                 fresh(cast(self.documented[-1], "SectionDocumentation").params) and
                 len(cast(self.documented[-1], "SectionDocumentation").params) == 0 and
                 not cast(self.documented[-1], "SectionDocumentation").is_macro and
                 same(self.documented_awaiting_function_def, self.documented[-1])))

    def ensures_same_list(self, ctx, docstring):
        return same(self.documented, old.self.documented)
    modifies = ["items(self.documented)", "self.documented_awaiting_function_def"]
    loops = {0: Loop(inv=lambda params, name, expect_fail, _k:
                     name == ("" if last_kw(params, _k, "NAME") < 0 else params[last_kw(params, _k, "NAME") + 1]) and
                     expect_fail == (last_kw(params, _k, "EXPECTFAIL") >= 0) and
                     last_kw(params, _k, "NAME") < len(params) - 1,
                     modifies=[])}


@spec
def keep_pos(j: int, idx: int) -> bool:
    """add_test signature: everything except the NAME keyword at idx and the name at idx+1"""
    return idx < 0 or (j != idx and j != idx + 1)


@spec
def drop2(p: "list[str]", idx: int, k: int) -> "list[str]":
    """the first k arguments without positions idx and idx+1, in order"""
    return [] if k <= 0 else ((drop2(p, idx, k - 1) + [p[k - 1]]) if keep_pos(k - 1, idx) else drop2(p, idx, k - 1))


@contract("cminx.aggregator:DocumentationAggregator.process_add_test")
class process_add_test_c:
    props = ["C11", "C02", "C01"]
    types = {"signature": "list[str]"}

    def ensures_none(self, ctx, docstring):
        return (not (len(sargs(ctx)) < 2 or sargs(ctx)[-1] == "NAME") or
                len(self.documented) == len(old.self.documented))

    def ensures_entry(self, ctx, docstring):
        return (len(sargs(ctx)) < 2 or sargs(ctx)[-1] == "NAME" or
                (appended_ref(self.documented, old.self.documented, self.documented[len(old.self.documented)]) and
                 fresh(self.documented[-1]) and typeof(self.documented[-1], "CTestDocumentation") and
                 cast(self.documented[-1], "CTestDocumentation").name == name_of(sargs(ctx)) and
                 cast(self.documented[-1], "CTestDocumentation").doc == docstring and
                 fresh(cast(self.documented[-1], "CTestDocumentation").params) and
                 cast(self.documented[-1], "CTestDocumentation").params ==
                 drop2(sargs(ctx), last_kw(sargs(ctx), len(sargs(ctx)), "NAME"), len(sargs(ctx)))))

    def ensures_same_list(self, ctx, docstring):
        return same(self.documented, old.self.documented)
    modifies = ["items(self.documented)"]
    loops = {0: Loop(inv=lambda params, name, name_index, _k:
                     name_index == last_kw(params, _k, "NAME") and
                     name == ("" if name_index < 0 else params[name_index + 1]) and
                     name_index < len(params) - 1,
                     modifies=[]),
             1: Loop(inv=lambda params, name_index, _out, _k: _out == drop2(params, name_index, _k),
                     modifies=["items(_out)"], elem="str")}


# ---------------------------------------------------------------- variables and options (C10)
@spec
def unquote(s: str) -> str:
    """a quoted argument without its surrounding quotes; any other argument as written"""
    return s[1:len(s) - 1] if s[0] == '"' else s


@contract("cminx.aggregator:DocumentationAggregator.process_set")
class process_set_c:
    props = ["C10", "C02", "C01"]
    types = {"values": "list[str]"}

    def requires(self, ctx, docstring):
        return wf_cmd(ctx)

    def ensures_none(self, ctx, docstring):
        return len(sargs(ctx)) >= 1 or len(self.documented) == len(old.self.documented)

    def ensures_entry(self, ctx, docstring):
        return (len(sargs(ctx)) < 1 or
                (appended_ref(self.documented, old.self.documented, self.documented[len(old.self.documented)]) and
                 fresh(self.documented[-1]) and typeof(self.documented[-1], "VariableDocumentation") and
                 cast(self.documented[-1], "VariableDocumentation").name == sargs(ctx)[0] and
                 cast(self.documented[-1], "VariableDocumentation").doc == docstring))

    def ensures_unset(self, ctx, docstring):
        return (len(sargs(ctx)) != 1 or
                (cast(self.documented[-1], "VariableDocumentation").type == VarType.UNSET and
                 cast(self.documented[-1], "VariableDocumentation").value is None))

    def ensures_string(self, ctx, docstring):
        return (len(sargs(ctx)) != 2 or
                (cast(self.documented[-1], "VariableDocumentation").type == VarType.STRING and
                 cast(self.documented[-1], "VariableDocumentation").value == unquote(sargs(ctx)[1])))

    def ensures_list(self, ctx, docstring):
        return (len(sargs(ctx)) <= 2 or
                (cast(self.documented[-1], "VariableDocumentation").type == VarType.LIST and
                 cast(self.documented[-1], "VariableDocumentation").value == join(" ", sargs(ctx)[1:])))

    def ensures_same_list(self, ctx, docstring):
        return same(self.documented, old.self.documented)
    modifies = ["items(self.documented)"]


@contract("cminx.aggregator:DocumentationAggregator.process_option")
class process_option_c:
    props = ["C10", "C02", "C01"]

    def ensures_none(self, ctx, docstring):
        return (len(sargs(ctx)) == 2 or len(sargs(ctx)) == 3 or len(self.documented) == len(old.self.documented))

    def ensures_entry(self, ctx, docstring):
        return (not (len(sargs(ctx)) == 2 or len(sargs(ctx)) == 3) or
                (appended_ref(self.documented, old.self.documented, self.documented[len(old.self.documented)]) and
                 fresh(self.documented[-1]) and typeof(self.documented[-1], "OptionDocumentation") and
                 cast(self.documented[-1], "OptionDocumentation").name == sargs(ctx)[0] and
                 cast(self.documented[-1], "OptionDocumentation").doc == docstring and
                 cast(self.documented[-1], "OptionDocumentation").type == "bool" and
                 cast(self.documented[-1], "OptionDocumentation").help_text == sargs(ctx)[1] and
                 cast(self.documented[-1], "OptionDocumentation").value ==
                 (sargs(ctx)[2] if len(sargs(ctx)) == 3 else None)))

    def ensures_same_list(self, ctx, docstring):
        return same(self.documented, old.self.documented)
    modifies = ["items(self.documented)"]


# ---------------------------------------------------------------- classes (C09, C08)
@contract("cminx.aggregator:DocumentationAggregator.process_cpp_class")
class process_cpp_class_c:
    props = ["C09", "C08", "C02", "C01"]

    def ensures_none(self, ctx, docstring):
        return (len(sargs(ctx)) >= 1 or
                (len(self.documented) == len(old.self.documented) and
                 len(self.documented_classes_stack) == len(old.self.documented_classes_stack)))

    def ensures_entry(self, ctx, docstring):
        return (len(sargs(ctx)) < 1 or
                (appended_ref(self.documented, old.self.documented, self.documented[len(old.self.documented)]) and
                 fresh(self.documented[-1]) and typeof(self.documented[-1], "ClassDocumentation") and
                 cast(self.documented[-1], "ClassDocumentation").name == sargs(ctx)[0] and
                 cast(self.documented[-1], "ClassDocumentation").doc == docstring and
                 fresh(cast(self.documented[-1], "ClassDocumentation").superclasses) and
                 cast(self.documented[-1], "ClassDocumentation").superclasses == sargs(ctx)[1:] and
                 fresh(cast(self.documented[-1], "ClassDocumentation").inner_classes) and
                 len(cast(self.documented[-1], "ClassDocumentation").inner_classes) == 0 and
                 fresh(cast(self.documented[-1], "ClassDocumentation").constructors) and
                 len(cast(self.documented[-1], "ClassDocumentation").constructors) == 0 and
                 fresh(cast(self.documented[-1], "ClassDocumentation").members) and
                 len(cast(self.documented[-1], "ClassDocumentation").members) == 0 and
                 fresh(cast(self.documented[-1], "ClassDocumentation").attributes) and
                 len(cast(self.documented[-1], "ClassDocumentation").attributes) == 0))

    def ensures_stack(self, ctx, docstring):
        return (len(sargs(ctx)) < 1 or
                (appended_ref(self.documented_classes_stack, old.self.documented_classes_stack,
                              self.documented[-1]) and
                 same(self.documented_classes_stack, old.self.documented_classes_stack)))

    def ensures_inner(self, ctx, docstring):
        """registered by name in the inner-class list of the innermost enclosing (shown) class, and of no other"""
        return (len(sargs(ctx)) < 1 or len(old.self.documented_classes_stack) == 0 or
                old.self.documented_classes_stack[-1] is None or
                appended_ref(self.documented_classes_stack[-2].inner_classes,
                             old.self.documented_classes_stack[-1].inner_classes, self.documented[-1]))

    def ensures_same_list(self, ctx, docstring):
        return same(self.documented, old.self.documented)
    modifies = ["items(self.documented)", "items(self.documented_classes_stack)",
                "items(self.documented_classes_stack[-1].inner_classes) if len(sargs(ctx)) >= 1 and "
                "len(self.documented_classes_stack) > 0 and self.documented_classes_stack[-1] is not None else None"]
