"""Contracts for /repo/src/cminx/documentation_types.py: how each entry kind is rendered
(C01 K3, C02, C03, C07, C09, C10, C11)."""
from pyvc.dsl import *
from contracts.specs import *
from contracts.c_rstwriter import *
from contracts.c_aggregator import *
try:
    from cminx.documentation_types import VarType
    from cminx.rstwriter import interpreted_text
except ImportError:
    pass


# ---------------------------------------------------------------- shapes of what an entry appends
@spec
def child_dir(w: "ref:RSTWriter", e: "ref", name: str, arg: str) -> bool:
    """e is a directive `.. name:: arg` nested one level below w"""
    return (typeof(e, "Directive") and cast(e, "Directive").title == name and
            len(cast(e, "Directive").arguments) == 1 and cast(e, "Directive").arguments[0] == arg and
            cast(e, "Directive").indent == w.indent + 1 and len(cast(e, "Directive").options) == 0 and
            len(cast(e, "Directive").document) >= 1)


@spec
def para_of(d: "ref:RSTWriter", e: "ref", text: str) -> bool:
    """e is a paragraph of d carrying `text` unchanged, every line indented to d's level"""
    return (typeof(e, "Paragraph") and cast(e, "Paragraph").text == text and
            cast(e, "Paragraph").prefix == indent_of(d.indent) and
            cast(e, "Paragraph").text_string == para_text(indent_of(d.indent), text))


@spec
def field_of(d: "ref:RSTWriter", e: "ref", name: str, text: "opt[str]") -> bool:
    return (typeof(e, "Field") and cast(e, "Field").field_name == name and cast(e, "Field").field_text == text and
            cast(e, "Field").field_string == field_text_of(indent_of(d.indent), name, text))


@spec
def admonition(d: "ref:RSTWriter", e: "ref", kind: str, text: str) -> bool:
    """a note/warning with its text as argument and no content"""
    return child_dir(d, e, kind, text) and len(cast(e, "Directive").document) == 1


@spec
def sig_text(name: str, params: "list[str]", kwargs: bool) -> str:
    """C03: name, then the parameters in order, '**kwargs' exactly once and last iff flagged"""
    return (name + "(" + (join(" ", params) + (" " if len(params) > 0 else "") + "**kwargs" if kwargs
                          else join(" ", params)) + ")")


@spec
def writer_ready(w: "ref:RSTWriter") -> bool:
    """what the writer API needs of a writer handed to process(): header characters for nested directives"""
    return len(header_chars(w.settings)) >= 1


@contract("cminx.documentation_types:FunctionDocumentation.process")
class FunctionDocumentation_process:
    props = ["C03", "C02", "C01", "C07", "C17"]
    types = {"param_list": "list[str]"}
    fuel = {"join": 1}

    def requires(self, writer):
        return writer_ready(writer)

    def ensures_ghost(self, writer, param_list):
        return join_ext(" ", param_list, self.params, len(self.params))

    def ensures(self, writer):
        return (grew1(writer.document, old.writer.document) and same(writer.document, old.writer.document) and
                fresh(writer.document[-1]) and
                child_dir(writer, writer.document[-1], "function",
                          sig_text(self.name, self.params, self.has_kwargs)) and
                len(cast(writer.document[-1], "Directive").document) == 2 and
                fresh(cast(writer.document[-1], "Directive").document[1]) and
                para_of(cast(writer.document[-1], "Directive"), cast(writer.document[-1], "Directive").document[1],
                        self.doc))

    modifies = ["items(writer.document)"]        # in particular: the entry itself is not changed by rendering (C17)


@contract("cminx.documentation_types:MacroDocumentation.process")
class MacroDocumentation_process:
    props = ["C03", "C02", "C01", "C07", "C17"]
    types = {"param_list": "list[str]"}
    fuel = {"join": 1}

    def requires(self, writer):
        return writer_ready(writer)

    def ensures_ghost(self, writer, param_list):
        return join_ext(" ", param_list, self.params, len(self.params))

    def ensures(self, writer):
        return (grew1(writer.document, old.writer.document) and same(writer.document, old.writer.document) and
                fresh(writer.document[-1]) and
                child_dir(writer, writer.document[-1], "function",
                          sig_text(self.name, self.params, self.has_kwargs)) and
                len(cast(writer.document[-1], "Directive").document) == 3 and
                fresh(cast(writer.document[-1], "Directive").document[1]) and
                admonition(cast(writer.document[-1], "Directive"), cast(writer.document[-1], "Directive").document[1],
                           "note", "This is a macro, and so does not introduce a new scope.") and
                fresh(cast(writer.document[-1], "Directive").document[2]) and
                para_of(cast(writer.document[-1], "Directive"), cast(writer.document[-1], "Directive").document[2],
                        self.doc))

    modifies = ["items(writer.document)"]        # in particular: the entry itself is not changed by rendering (C17)


@spec
def vartype_name(t: "dyn") -> str:
    return "str" if t == VarType.STRING else ("list" if t == VarType.LIST else "UNSET")


@contract("cminx.documentation_types:VariableDocumentation.process")
class VariableDocumentation_process:
    """C10: data directive, the doc text, 'Default value' as written, 'type' str/list/UNSET"""
    props = ["C10", "C02", "C01", "C07"]
    raises = {"ValueError": lambda self: not (self.type == VarType.STRING or self.type == VarType.LIST or
                                              self.type == VarType.UNSET)}

    def requires(self, writer):
        return writer_ready(writer) and typeof(self, "VariableDocumentation")

    def ensures(self, writer):
        return (grew1(writer.document, old.writer.document) and same(writer.document, old.writer.document) and
                fresh(writer.document[-1]) and child_dir(writer, writer.document[-1], "data", self.name) and
                len(cast(writer.document[-1], "Directive").document) == 4 and
                para_of(cast(writer.document[-1], "Directive"), cast(writer.document[-1], "Directive").document[1],
                        self.doc) and
                field_of(cast(writer.document[-1], "Directive"), cast(writer.document[-1], "Directive").document[2],
                         "Default value", self.value) and
                field_of(cast(writer.document[-1], "Directive"), cast(writer.document[-1], "Directive").document[3],
                         "type", vartype_name(self.type)))
    modifies = ["items(writer.document)"]


@contract("cminx.documentation_types:OptionDocumentation.process")
class OptionDocumentation_process:
    """C10: marked as a user-editable cache option, help text, default ('OFF' when omitted), type"""
    props = ["C10", "C02", "C01", "C07"]
    types = {"return": "none"}

    def requires(self, writer):
        return writer_ready(writer) and is_str_value(self.type)

    def ensures(self, writer):
        return (grew1(writer.document, old.writer.document) and same(writer.document, old.writer.document) and
                fresh(writer.document[-1]) and child_dir(writer, writer.document[-1], "data", self.name) and
                len(cast(writer.document[-1], "Directive").document) == 6 and
                typeof(cast(writer.document[-1], "Directive").document[1], "Directive") and
                cast(cast(writer.document[-1], "Directive").document[1], "Directive").title == "note" and
                len(cast(cast(writer.document[-1], "Directive").document[1], "Directive").arguments) == 0 and
                cast(cast(writer.document[-1], "Directive").document[1], "Directive").indent == writer.indent + 2 and
                len(cast(cast(writer.document[-1], "Directive").document[1], "Directive").document) == 2 and
                para_of(cast(cast(writer.document[-1], "Directive").document[1], "Directive"),
                        cast(cast(writer.document[-1], "Directive").document[1], "Directive").document[1],
                        textwrap_dedent(OPTION_NOTE)) and
                para_of(cast(writer.document[-1], "Directive"), cast(writer.document[-1], "Directive").document[2],
                        self.doc) and
                field_of(cast(writer.document[-1], "Directive"), cast(writer.document[-1], "Directive").document[3],
                         "Help text", self.help_text) and
                field_of(cast(writer.document[-1], "Directive"), cast(writer.document[-1], "Directive").document[4],
                         "Default value", self.value if self.value is not None else "OFF") and
                field_of(cast(writer.document[-1], "Directive"), cast(writer.document[-1], "Directive").document[5],
                         "type", dynstr(self.type)))
    modifies = ["items(writer.document)"]


OPTION_NOTE = """
            This variable is a user-editable option,
            meaning it appears within the cache and can be
            edited on the command line by the :code:`-D` flag.
            """


@contract("cminx.documentation_types:GenericCommandDocumentation.process")
class GenericCommandDocumentation_process:
    props = ["C02", "C01", "C07"]

    def requires(self, writer):
        return writer_ready(writer)

    def ensures(self, writer):
        return (grew1(writer.document, old.writer.document) and same(writer.document, old.writer.document) and
                fresh(writer.document[-1]) and
                child_dir(writer, writer.document[-1], "function", self.name + "(" + join(" ", self.params) + ")") and
                len(cast(writer.document[-1], "Directive").document) == 3 and
                admonition(cast(writer.document[-1], "Directive"), cast(writer.document[-1], "Directive").document[1],
                           "warning",
                           "This is a generic command invocation. It is not a function or macro definition.") and
                para_of(cast(writer.document[-1], "Directive"), cast(writer.document[-1], "Directive").document[2],
                        self.doc))
    modifies = ["items(writer.document)"]


@contract("cminx.documentation_types:CTestDocumentation.process")
class CTestDocumentation_process:
    props = ["C11", "C02", "C01", "C07"]

    def requires(self, writer):
        return writer_ready(writer)

    def ensures(self, writer):
        return (grew1(writer.document, old.writer.document) and same(writer.document, old.writer.document) and
                fresh(writer.document[-1]) and
                child_dir(writer, writer.document[-1], "function", self.name + "(" + join(" ", self.params) + ")") and
                len(cast(writer.document[-1], "Directive").document) == 3 and
                admonition(cast(writer.document[-1], "Directive"), cast(writer.document[-1], "Directive").document[1],
                           "warning", 'This is a CTest test definition, do not call this manually. '
                                      'Use the "ctest" program to execute this test.') and
                para_of(cast(writer.document[-1], "Directive"), cast(writer.document[-1], "Directive").document[2],
                        self.doc))
    modifies = ["items(writer.document)"]


@contract("cminx.documentation_types:TestDocumentation.process")
class TestDocumentation_process:
    props = ["C11", "C02", "C01", "C07"]

    def requires(self, writer):
        return writer_ready(writer) and typeof(self, "TestDocumentation")

    def ensures(self, writer):
        return (grew1(writer.document, old.writer.document) and same(writer.document, old.writer.document) and
                fresh(writer.document[-1]) and
                child_dir(writer, writer.document[-1], "function",
                          self.name + "(" + ("EXPECTFAIL" if self.expect_fail else "") + ")") and
                len(cast(writer.document[-1], "Directive").document) == 3 and
                admonition(cast(writer.document[-1], "Directive"), cast(writer.document[-1], "Directive").document[1],
                           "warning", "This is a CMakeTest test definition, do not call this manually.") and
                para_of(cast(writer.document[-1], "Directive"), cast(writer.document[-1], "Directive").document[2],
                        self.doc))
    modifies = ["items(writer.document)"]


@contract("cminx.documentation_types:SectionDocumentation.process")
class SectionDocumentation_process:
    props = ["C11", "C02", "C01", "C07"]

    def requires(self, writer):
        return writer_ready(writer)

    def ensures(self, writer):
        return (grew1(writer.document, old.writer.document) and same(writer.document, old.writer.document) and
                fresh(writer.document[-1]) and
                child_dir(writer, writer.document[-1], "function",
                          self.name + "(" + ("EXPECTFAIL" if self.expect_fail else "") + ")") and
                len(cast(writer.document[-1], "Directive").document) == 3 and
                admonition(cast(writer.document[-1], "Directive"), cast(writer.document[-1], "Directive").document[1],
                           "warning", "This is a CMakeTest section definition, do not call this manually.") and
                para_of(cast(writer.document[-1], "Directive"), cast(writer.document[-1], "Directive").document[2],
                        self.doc))
    modifies = ["items(writer.document)"]


@contract("cminx.documentation_types:AttributeDocumentation.process")
class AttributeDocumentation_process:
    """C09: an attribute shows its default value iff one is given"""
    props = ["C09", "C02", "C01", "C07"]
    types = {"writer": "ref:RSTWriter"}

    def requires(self, writer):
        return writer_ready(writer)

    def ensures(self, writer):
        return (grew1(writer.document, old.writer.document) and same(writer.document, old.writer.document) and
                fresh(writer.document[-1]) and
                typeof(writer.document[-1], "Directive") and
                cast(writer.document[-1], "Directive").title == "py:attribute" and
                len(cast(writer.document[-1], "Directive").arguments) == 1 and
                cast(writer.document[-1], "Directive").arguments[0] == self.name and
                cast(writer.document[-1], "Directive").indent == writer.indent + 1 and
                len(cast(writer.document[-1], "Directive").options) == (0 if self.default_value is None else 1) and
                (self.default_value is None or
                 cast(cast(writer.document[-1], "Directive").options[0], "Option").option_string ==
                 indent_of(writer.indent + 1) + ":value: " + optstr(self.default_value)) and
                len(cast(writer.document[-1], "Directive").document) == 2 and
                para_of(cast(writer.document[-1], "Directive"), cast(writer.document[-1], "Directive").document[1],
                        self.doc))
    modifies = ["items(writer.document)"]


@contract("cminx.documentation_types:ModuleDocumentation.process")
class ModuleDocumentation_process:
    """C12: exactly one module directive named after the module; its doccomment text is its content"""
    props = ["C12", "C02", "C01", "C07"]

    def requires(self, writer):
        return writer_ready(writer)

    def ensures(self, writer):
        return (grew1(writer.document, old.writer.document) and same(writer.document, old.writer.document) and
                fresh(writer.document[-1]) and child_dir(writer, writer.document[-1], "module", self.name) and
                len(cast(writer.document[-1], "Directive").document) == (1 if len(self.doc) == 0 else 2) and
                (len(self.doc) == 0 or
                 para_of(cast(writer.document[-1], "Directive"), cast(writer.document[-1], "Directive").document[1],
                         self.doc)))
    modifies = ["items(writer.document)"]


# ---------------------------------------------------------------- class members (C09)
@spec
def needs_param(doc: str, p: str) -> bool:
    return (":param " + p + ":") not in doc


@spec
def needs_type(doc: str, p: str) -> bool:
    return (":type " + p + ":") not in doc


@lemma
def nfields_nonneg(doc: str, params: "list[str]", k: int):
    props("C09")
    requires(k >= 0)
    ensures(nfields(doc, params, k) >= 0)
    induction(k)


@spec(nonneg=True)
def nfields(doc: str, params: "list[str]", k: int) -> int:
    """number of generated :param:/:type: fields for the first k parameters"""
    return 0 if k <= 0 else (nfields(doc, params, k - 1) + (1 if needs_param(doc, params[k - 1]) else 0) +
                             (1 if needs_type(doc, params[k - 1]) else 0))


@spec
def method_sig(name: str, params: "list[str]", types: "list[str]") -> str:
    """C09: the parameter names, comma separated; '[, ...]' iff the variadic type 'args' is declared"""
    return name + "(" + join(", ", params) + ("[, ...]" if "args" in types else "") + ")"


@spec
def npairs(m: "ref:MethodDocumentation") -> int:
    """parameters are paired position-wise with the declared types"""
    return len(m.params) if len(m.params) < len(m.param_types) else len(m.param_types)


@spec
def param_fields_ok(m: "ref:MethodDocumentation", d: "ref:Directive", base: int, k: int) -> bool:
    """a ':param p:' field for each of the first k parameters unless the doc text already has one"""
    return forall(0, k, lambda j:
                  not needs_param(m.doc, m.params[j]) or
                  field_of(d, d.document[base + nfields(m.doc, m.params, j)], "param " + m.params[j], ""))


@spec
def type_fields_ok(m: "ref:MethodDocumentation", d: "ref:Directive", base: int, k: int) -> bool:
    """a ':type p:' field carrying the declared type at the same position (C09: paired position-wise)"""
    return forall(0, k, lambda j:
                  not needs_type(m.doc, m.params[j]) or
                  field_of(d, d.document[base + nfields(m.doc, m.params, j) +
                                         (1 if needs_param(m.doc, m.params[j]) else 0)],
                           "type " + m.params[j], m.param_types[j]))


@spec
def method_entry(w: "ref:RSTWriter", e: "ref", m: "ref:MethodDocumentation") -> bool:
    """what one member contributes to its class directive"""
    return (child_dir(w, e, "py:method", method_sig(m.name, m.params, m.param_types)) and
            len(cast(e, "Directive").document) ==
            2 + (1 if m.is_macro else 0) + nfields(m.doc, m.params, npairs(m)) and
            (not m.is_macro or
             admonition(cast(e, "Directive"), cast(e, "Directive").document[1], "note",
                        "This member is a macro and so does not introduce a new scope")) and
            para_of(cast(e, "Directive"), cast(e, "Directive").document[1 + (1 if m.is_macro else 0)], m.doc) and
            param_fields_ok(m, cast(e, "Directive"), 2 + (1 if m.is_macro else 0), npairs(m)) and
            type_fields_ok(m, cast(e, "Directive"), 2 + (1 if m.is_macro else 0), npairs(m)))


@contract("cminx.documentation_types:MethodDocumentation.process")
class MethodDocumentation_process:
    props = ["C09", "C02", "C01", "C07"]
    types = {"writer": "ref:RSTWriter", "d": "ref:Directive"}

    def requires(self, writer):
        return writer_ready(writer)

    def ensures(self, writer):
        return (grew1(writer.document, old.writer.document) and same(writer.document, old.writer.document) and
                fresh(writer.document[-1]) and method_entry(writer, writer.document[-1], self))
    modifies = ["items(writer.document)"]
    loops = {0: Loop(inv=lambda self, d, _k:
                     _k <= len(self.params) and
                     len(d.document) == 2 + (1 if self.is_macro else 0) + nfields(self.doc, self.params, _k) and
                     forall(0, _k, lambda j: nfields(self.doc, self.params, j) +
                            (1 if needs_param(self.doc, self.params[j]) else 0) +
                            (1 if needs_type(self.doc, self.params[j]) else 0) <=
                            nfields(self.doc, self.params, _k)) and
                     nfields(self.doc, self.params, _k) >= 0 and
                     param_fields_ok(self, d, 2 + (1 if self.is_macro else 0), _k) and
                     type_fields_ok(self, d, 2 + (1 if self.is_macro else 0), _k) and
                     (not self.is_macro or
                      admonition(d, d.document[1], "note",
                                 "This member is a macro and so does not introduce a new scope")) and
                     para_of(d, d.document[1 + (1 if self.is_macro else 0)], self.doc),
                     modifies=["items(d.document)"])}


# ---------------------------------------------------------------- classes (C09)
@spec
def member_dir(d: "ref:RSTWriter", e: "ref", m: "ref:MethodDocumentation") -> bool:
    """the member's own directive, as a child of the class directive (its content: MethodDocumentation.process)"""
    return child_dir(d, e, "py:method", method_sig(m.name, m.params, m.param_types))


@spec
def attr_dir(d: "ref:RSTWriter", e: "ref", a: "ref:AttributeDocumentation") -> bool:
    return (typeof(e, "Directive") and cast(e, "Directive").title == "py:attribute" and
            len(cast(e, "Directive").arguments) == 1 and cast(e, "Directive").arguments[0] == a.name and
            cast(e, "Directive").indent == d.indent + 1)


@spec
def bases_text(c: "ref:ClassDocumentation") -> str:
    """base classes, as written and in order"""
    return "Bases: " + join(", ", [":class:`" + s + "`" for s in c.superclasses]) + "\n"


@spec
def cls_o_doc(c: "ref:ClassDocumentation") -> int:
    return 1 + (1 if len(c.superclasses) > 0 else 0)


@spec
def cls_o_meth(c: "ref:ClassDocumentation") -> int:
    return cls_o_doc(c) + 1 + (len(c.constructors) + 1 if len(c.constructors) > 0 else 0)


@spec
def cls_o_attr(c: "ref:ClassDocumentation") -> int:
    return cls_o_meth(c) + (len(c.members) + 1 if len(c.members) > 0 else 0)


@spec
def cls_o_inner(c: "ref:ClassDocumentation") -> int:
    return cls_o_attr(c) + (len(c.attributes) + 1 if len(c.attributes) > 0 else 0)


@spec
def inner_names(c: "ref:ClassDocumentation") -> "list[str]":
    return [interpreted_text("class", x.name) for x in c.inner_classes]


@contract("cminx.documentation_types:ClassDocumentation.process")
class ClassDocumentation_process:
    """C09: one class directive; bases; doc; then constructors, methods and attributes, each under its label, each
    list in source order and each element exactly once, all as children of this directive; inner classes by name"""
    props = ["C09", "C02", "C01", "C07"]
    types = {"d": "ref:Directive"}

    def requires(self, writer):
        return writer_ready(writer)

    def ensures(self, writer):
        return (grew1(writer.document, old.writer.document) and same(writer.document, old.writer.document) and
                fresh(writer.document[-1]) and child_dir(writer, writer.document[-1], "py:class", self.name) and
                len(cast(writer.document[-1], "Directive").document) ==
                cls_o_inner(self) + (2 if len(self.inner_classes) > 0 else 0))

    def ensures_head(self, writer):
        return ((len(self.superclasses) == 0 or
                 para_of(cast(writer.document[-1], "Directive"), cast(writer.document[-1], "Directive").document[1],
                         bases_text(self))) and
                para_of(cast(writer.document[-1], "Directive"),
                        cast(writer.document[-1], "Directive").document[cls_o_doc(self)], self.doc))

    def ensures_ctors(self, writer):
        return (len(self.constructors) == 0 or
                (para_of(cast(writer.document[-1], "Directive"),
                         cast(writer.document[-1], "Directive").document[cls_o_doc(self) + 1],
                         "**Additional Constructors**") and
                 forall(0, len(self.constructors),
                        lambda j: member_dir(cast(writer.document[-1], "Directive"),
                                             cast(writer.document[-1], "Directive").document[cls_o_doc(self) + 2 + j],
                                             self.constructors[j]))))

    def ensures_methods(self, writer):
        return (len(self.members) == 0 or
                (para_of(cast(writer.document[-1], "Directive"),
                         cast(writer.document[-1], "Directive").document[cls_o_meth(self)], "**Methods**") and
                 forall(0, len(self.members),
                        lambda j: member_dir(cast(writer.document[-1], "Directive"),
                                             cast(writer.document[-1], "Directive").document[cls_o_meth(self) + 1 + j],
                                             self.members[j]))))

    def ensures_attrs(self, writer):
        return (len(self.attributes) == 0 or
                (para_of(cast(writer.document[-1], "Directive"),
                         cast(writer.document[-1], "Directive").document[cls_o_attr(self)], "**Attributes**") and
                 forall(0, len(self.attributes),
                        lambda j: attr_dir(cast(writer.document[-1], "Directive"),
                                           cast(writer.document[-1], "Directive").document[cls_o_attr(self) + 1 + j],
                                           self.attributes[j]))))

    def ensures_inner(self, writer):
        return (len(self.inner_classes) == 0 or
                (para_of(cast(writer.document[-1], "Directive"),
                         cast(writer.document[-1], "Directive").document[cls_o_inner(self)], "**Inner classes**") and
                 typeof(cast(writer.document[-1], "Directive").document[cls_o_inner(self) + 1], "RSTList") and
                 cast(cast(writer.document[-1], "Directive").document[cls_o_inner(self) + 1], "RSTList").list_string ==
                 "\n" + bullet_items(indent_of(writer.indent + 1), inner_names(self), len(self.inner_classes))))
    modifies = ["items(writer.document)"]
    loops = {
        0: Loop(inv=lambda self, d, _k:
                len(d.document) == len(entry.d.document) + _k and
                forall(0, len(entry.d.document), lambda i: same(d.document[i], entry.d.document[i])) and
                forall(0, _k, lambda j: member_dir(d, d.document[len(entry.d.document) + j], self.constructors[j])),
                modifies=["items(d.document)"]),
        1: Loop(inv=lambda self, d, _k:
                len(d.document) == len(entry.d.document) + _k and
                forall(0, len(entry.d.document), lambda i: same(d.document[i], entry.d.document[i])) and
                forall(0, _k, lambda j: member_dir(d, d.document[len(entry.d.document) + j], self.members[j])),
                modifies=["items(d.document)"]),
        2: Loop(inv=lambda self, d, _k:
                len(d.document) == len(entry.d.document) + _k and
                forall(0, len(entry.d.document), lambda i: same(d.document[i], entry.d.document[i])) and
                forall(0, _k, lambda j: attr_dir(d, d.document[len(entry.d.document) + j], self.attributes[j])),
                modifies=["items(d.document)"]),
    }
