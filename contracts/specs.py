"""Pure specification functions (DESIGN.md 2.3).  Written once, in the Python subset:
the verifier translates them to SMT (uninterpreted symbol + definitional unfolding for the
recursive ones), runtime.py executes the same text natively."""
from pyvc.dsl import *


# ---------------------------------------------------------------- strings and lists of strings
@spec
def rep(s: str, n: int) -> str:
    """s repeated n times"""
    return "" if n <= 0 else rep(s, n - 1) + s


@spec
def join(sep: str, xs: "list[str]") -> str:
    """sep.join(xs)"""
    return "" if len(xs) <= 0 else (xs[0] if len(xs) == 1 else join(sep, xs[:len(xs) - 1]) + sep + xs[len(xs) - 1])


@spec
def indent_of(level: int) -> str:
    """the indentation string of nesting level `level`: three spaces per level"""
    return rep("   ", level)


# ---------------------------------------------------------------- rstwriter: rendering of a document tree
RENDER_READS = ["f:Paragraph.text_string", "f:Field.field_string", "f:DocTest.doctest_string",
                "f:RSTList.list_string", "f:Heading.heading_string", "f:SimpleTable.table_string",
                "f:DirectiveHeading.heading_string", "f:Option.option_string", "f:RSTWriter.document",
                "f:Directive.options", "LLen", "LRef"]


@spec(reads=RENDER_READS)
def render(e: "ref") -> str:
    """str(e) for every kind of element a document tree can hold"""
    return (cast(e, "Paragraph").text_string if typeof(e, "Paragraph") else
            cast(e, "Field").field_string if typeof(e, "Field") else
            cast(e, "DocTest").doctest_string if typeof(e, "DocTest") else
            cast(e, "RSTList").list_string if typeof(e, "RSTList") else
            cast(e, "Heading").heading_string if typeof(e, "Heading") else
            cast(e, "SimpleTable").table_string if typeof(e, "SimpleTable") else
            cast(e, "DirectiveHeading").heading_string if typeof(e, "DirectiveHeading") else
            cast(e, "Option").option_string if typeof(e, "Option") else
            directive_text(cast(e, "Directive")) if typeof(e, "Directive") else
            writer_text(cast(e, "RSTWriter")))


@spec(reads=RENDER_READS)
def cat_render(xs: "list[ref]", i: int, j: int) -> str:
    """concatenation of str(xs[k]) + newline for k in [i, j)"""
    return "" if j <= i else cat_render(xs, i, j - 1) + render(xs[j - 1]) + "\n"


@spec(reads=RENDER_READS)
def writer_text(w: "ref:RSTWriter") -> str:
    return cat_render(w.document, 0, len(w.document))


@spec(reads=RENDER_READS)
def directive_text(d: "ref:Directive") -> str:
    """heading, then the options in the order added, a blank line iff there is content, then the content"""
    return (render(d.document[0]) + "\n" + cat_render(d.options, 0, len(d.options)) +
            ("\n" if len(d.document) > 1 else "") + cat_render(d.document, 1, len(d.document)))


@spec
def is_element(e: "ref") -> bool:
    """the classes a document tree holds (everything RSTWriter's API appends)"""
    return (typeof(e, "Paragraph") or typeof(e, "Field") or typeof(e, "DocTest") or typeof(e, "RSTList") or
            typeof(e, "Heading") or typeof(e, "SimpleTable") or typeof(e, "DirectiveHeading") or
            typeof(e, "Option") or typeof(e, "Directive") or typeof(e, "RSTWriter"))


# ---------------------------------------------------------------- library functions kept uninterpreted (A2, A3)
@spec(axioms_only=True)
def re_sub(pattern: str, s: str) -> str:
    """re.sub(pattern, "", s)"""
    import re
    return re.sub(pattern, "", s)


@spec(axioms_only=True)
def textwrap_dedent(text: str) -> str:
    import textwrap
    return textwrap.dedent(text)


# ---------------------------------------------------------------- paths and the file system (T-OS), uninterpreted
@spec(axioms_only=True)
def path_join(a: str, b: str) -> str:
    import os
    return os.path.join(a, b)


@spec(axioms_only=True)
def path_relpath(p: str, start: str) -> str:
    import os
    return os.path.relpath(p, start)


@spec(axioms_only=True)
def path_basename(p: str) -> str:
    import os
    return os.path.basename(p)


@spec(axioms_only=True)
def path_dirname(p: str) -> str:
    import os
    return os.path.dirname(p)


@spec(axioms_only=True)
def path_abspath(p: str) -> str:
    import os
    return os.path.abspath(p)


@spec(axioms_only=True)
def path_normpath(p: str) -> str:
    import os
    return os.path.normpath(p)


@spec(axioms_only=True)
def fs_isdir(p: str) -> bool:
    """the path is a directory in the file system the run started with"""
    import os
    return os.path.isdir(p)


@spec(axioms_only=True)
def fs_isfile(p: str) -> bool:
    import os
    return os.path.isfile(p)


@spec(axioms_only=True)
def fs_exists(p: str) -> bool:
    import os
    return os.path.exists(p)


@spec(axioms_only=True)
def excluded(patterns: "list[str]", p: str) -> bool:
    """pathspec (gitwildmatch) decision for an absolute path (T-LIB)"""
    import pathspec
    return pathspec.PathSpec.from_lines(pathspec.patterns.GitWildMatchPattern, patterns).match_file(p)


@spec(axioms_only=True)
def spec_excl(spec: "ref:PathSpec", p: str) -> bool:
    """the decision of a compiled PathSpec for a path: a function of the object and the path (T-LIB)"""
    return spec.match_file(p)


@spec(opaque=True)
def stem(name: str) -> str:
    """a file name without its last extension"""
    return ".".join(name.split(".")[:-1])


@spec(axioms_only=True)
def fs_scandir(p: str) -> "list[ref:DirEntry]":
    """the entries of directory p (T-OS: a function of the path while the run lasts)"""
    import os
    return sorted(os.scandir(p), key=lambda e: e.path)


@spec(axioms_only=True)
def str_le(a: str, b: str) -> bool:
    """Python's str ordering (code points); uninterpreted in proofs: only 'sorted() returns an ordered list' is used"""
    return a <= b
