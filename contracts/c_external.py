"""Trusted contracts of everything outside the verified modules: the ANTLR parse-tree interface (T-ANTLR),
the Python standard library (T-OS, T-STRLIB) and third-party libraries (T-LIB).  Every contract here is an
ASSUMPTION; evidence files list the ones a property's obligations actually used."""
from pyvc.dsl import *

# ------------------------------------------------------------------------------------------------ T-ANTLR
# Ghost model of a parse-tree node (DESIGN.md 3): the only things the aggregator can observe.
EXTERNAL_CLASSES = {
    "ParserRuleContext": {"bases": []},
    "Command_invocationContext": {"bases": ["ParserRuleContext"]},
    "Single_argumentContext": {"bases": ["ParserRuleContext"]},
    "Compound_argumentContext": {"bases": ["ParserRuleContext"]},
    "Documented_commandContext": {"bases": ["ParserRuleContext"]},
    "Documented_moduleContext": {"bases": ["ParserRuleContext"]},
    "Bracket_doccommentContext": {"bases": ["ParserRuleContext"]},
    "TerminalNode": {"bases": []},
    "Token": {"bases": []},
}
GHOST_FIELDS = {
    "ParserRuleContext.g_text": "str",                       # getText(): concatenated token texts
    "ParserRuleContext.start": "ref:Token",
    "Token.line": "int",
    "Command_invocationContext.g_ident": "ref:TerminalNode",
    "Command_invocationContext.g_sargs": "list[ref:Single_argumentContext]",
    "Command_invocationContext.g_cargs": "list[ref:Compound_argumentContext]",
    "Command_invocationContext.g_children": "list[ref]",
    "Documented_commandContext.g_doc": "ref:Bracket_doccommentContext",
    "Documented_commandContext.g_cmd": "ref:Command_invocationContext",
    "Documented_moduleContext.g_modtok": "ref:TerminalNode",
    "TerminalNode.g_text": "str",
}


@contract("ext:ParserRuleContext.getText")
class ext_ctx_getText:
    trusted = True
    types = {"_params": [], "self": "ref:ParserRuleContext", "return": "str"}

    def returns(self):
        return self.g_text
    modifies = []


@contract("ext:TerminalNode.getText")
class ext_tn_getText:
    trusted = True
    types = {"_params": [], "self": "ref:TerminalNode", "return": "str"}

    def returns(self):
        return self.g_text
    modifies = []


@contract("ext:Command_invocationContext.single_argument")
class ext_single_argument:
    """the single_argument children, in source order (a list the caller does not mutate)"""
    trusted = True
    types = {"_params": [], "self": "ref:Command_invocationContext", "return": "list[ref:Single_argumentContext]"}

    def returns(self):
        return self.g_sargs
    modifies = []


@contract("ext:Command_invocationContext.compound_argument")
class ext_compound_argument:
    trusted = True
    types = {"_params": [], "self": "ref:Command_invocationContext", "return": "list[ref:Compound_argumentContext]"}

    def returns(self):
        return self.g_cargs
    modifies = []


@contract("ext:Command_invocationContext.getChildren")
class ext_getChildren:
    """all children (terminals and argument contexts) in source order"""
    trusted = True
    types = {"_params": [], "self": "ref:Command_invocationContext", "return": "list[ref]"}

    def returns(self):
        return self.g_children
    modifies = []


@contract("ext:Command_invocationContext.Identifier")
class ext_Identifier:
    trusted = True
    types = {"_params": [], "self": "ref:Command_invocationContext", "return": "ref:TerminalNode"}

    def returns(self):
        return self.g_ident
    modifies = []


@contract("ext:Documented_commandContext.bracket_doccomment")
class ext_bracket_doccomment:
    trusted = True
    types = {"_params": [], "self": "ref:Documented_commandContext", "return": "ref:Bracket_doccommentContext"}

    def returns(self):
        return self.g_doc
    modifies = []


@contract("ext:Documented_commandContext.command_invocation")
class ext_command_invocation:
    trusted = True
    types = {"_params": [], "self": "ref:Documented_commandContext", "return": "ref:Command_invocationContext"}

    def returns(self):
        return self.g_cmd
    modifies = []


@contract("ext:Documented_moduleContext.Module_docstring")
class ext_Module_docstring:
    trusted = True
    types = {"_params": [], "self": "ref:Documented_moduleContext", "return": "ref:TerminalNode"}

    def returns(self):
        return self.g_modtok
    modifies = []


# ------------------------------------------------------------------------------------------------ T-STRLIB / stdlib
@contract("ext:re.sub")
class ext_re_sub:
    """re.sub(pattern, "", s): a function of (pattern, s) (A3).  Uninterpreted for a symbolic pattern."""
    trusted = True
    types = {"_params": ["pattern", "repl", "string"], "pattern": "str", "repl": "str", "string": "str", "return": "str"}

    def requires(pattern, repl, string):
        return repl == ""

    def returns(pattern, repl, string):
        return re_sub(pattern, string)
    modifies = []


@contract("ext:textwrap.dedent")
class ext_dedent:
    trusted = True
    types = {"_params": ["text"], "text": "str", "return": "str"}

    def returns(text):
        return textwrap_dedent(text)
    modifies = []
