"""Trusted contracts of everything outside the verified modules: the ANTLR parse-tree interface (T-ANTLR),
the Python standard library (T-OS, T-STRLIB) and third-party libraries (T-LIB).  Every contract here is an
ASSUMPTION; evidence files list the ones a property's obligations actually used."""
from pyvc.dsl import *

# ------------------------------------------------------------------------------------------------ T-ANTLR
# Ghost model of a parse-tree node (DESIGN.md 3): the only things the aggregator can observe.
EXTERNAL_CLASSES = {
    "ParserRuleContext": {"bases": []},
    "Command_invocationContext": {"bases": ["ParserRuleContext"]},
    "Single_argumentContext": {"bases": ["ParserRuleContext"]},
    "Compound_argumentContext": {"bases": ["ParserRuleContext"]},
    "Documented_commandContext": {"bases": ["ParserRuleContext"]},
    "Documented_moduleContext": {"bases": ["ParserRuleContext"]},
    "Bracket_doccommentContext": {"bases": ["ParserRuleContext"]},
    "TerminalNode": {"bases": []},
    "Token": {"bases": []},
}
GHOST_FIELDS = {
    "ParserRuleContext.g_text": "str",                       # getText(): concatenated token texts
    "ParserRuleContext.start": "ref:Token",
    "Token.line": "int",
    "Command_invocationContext.g_ident": "ref:TerminalNode",
    "Command_invocationContext.g_sargs": "list[ref:Single_argumentContext]",
    "Command_invocationContext.g_cargs": "list[ref:Compound_argumentContext]",
    "Command_invocationContext.g_children": "list[ref]",
    "Documented_commandContext.g_doc": "ref:Bracket_doccommentContext",
    "Documented_commandContext.g_cmd": "ref:Command_invocationContext",
    "Documented_moduleContext.g_modtok": "ref:TerminalNode",
    "TerminalNode.g_text": "str",
}


@contract("ext:ParserRuleContext.getText")
class ext_ctx_getText:
    trusted = True
    types = {"_params": [], "self": "ref:ParserRuleContext", "return": "str"}

    def returns(self):
        return self.g_text
    modifies = []


@contract("ext:TerminalNode.getText")
class ext_tn_getText:
    trusted = True
    types = {"_params": [], "self": "ref:TerminalNode", "return": "str"}

    def returns(self):
        return self.g_text
    modifies = []


@contract("ext:Command_invocationContext.single_argument")
class ext_single_argument:
    """the single_argument children, in source order (a list the caller does not mutate)"""
    trusted = True
    types = {"_params": [], "self": "ref:Command_invocationContext", "return": "list[ref:Single_argumentContext]"}

    def returns(self):
        return self.g_sargs
    modifies = []


@contract("ext:Command_invocationContext.compound_argument")
class ext_compound_argument:
    trusted = True
    types = {"_params": [], "self": "ref:Command_invocationContext", "return": "list[ref:Compound_argumentContext]"}

    def returns(self):
        return self.g_cargs
    modifies = []


@contract("ext:Command_invocationContext.getChildren")
class ext_getChildren:
    """all children (terminals and argument contexts) in source order"""
    trusted = True
    types = {"_params": [], "self": "ref:Command_invocationContext", "return": "list[ref]"}

    def returns(self):
        return self.g_children
    modifies = []


@contract("ext:Command_invocationContext.Identifier")
class ext_Identifier:
    trusted = True
    types = {"_params": [], "self": "ref:Command_invocationContext", "return": "ref:TerminalNode"}

    def returns(self):
        return self.g_ident
    modifies = []


@contract("ext:Documented_commandContext.bracket_doccomment")
class ext_bracket_doccomment:
    trusted = True
    types = {"_params": [], "self": "ref:Documented_commandContext", "return": "ref:Bracket_doccommentContext"}

    def returns(self):
        return self.g_doc
    modifies = []


@contract("ext:Documented_commandContext.command_invocation")
class ext_command_invocation:
    trusted = True
    types = {"_params": [], "self": "ref:Documented_commandContext", "return": "ref:Command_invocationContext"}

    def returns(self):
        return self.g_cmd
    modifies = []


@contract("ext:Documented_moduleContext.Module_docstring")
class ext_Module_docstring:
    trusted = True
    types = {"_params": [], "self": "ref:Documented_moduleContext", "return": "ref:TerminalNode"}

    def returns(self):
        return self.g_modtok
    modifies = []


# ------------------------------------------------------------------------------------------------ T-STRLIB / stdlib
@contract("ext:re.sub")
class ext_re_sub:
    """re.sub(pattern, "", s): a function of (pattern, s) (A3).  Uninterpreted for a symbolic pattern."""
    trusted = True
    types = {"_params": ["pattern", "repl", "string"], "pattern": "str", "repl": "str", "string": "str", "return": "str"}

    def requires(pattern, repl, string):
        return repl == ""

    def returns(pattern, repl, string):
        return re_sub(pattern, string)
    modifies = []


@contract("ext:textwrap.dedent")
class ext_dedent:
    trusted = True
    types = {"_params": ["text"], "text": "str", "return": "str"}

    def returns(text):
        return textwrap_dedent(text)
    modifies = []


# ------------------------------------------------------------------------------------------------ T-OS
# The observable effects of a run are recorded in the ghost object WORLD (DESIGN.md C18):
#   made: directories handed to os.makedirs;  wpaths/wdata: files written (path, content);  out: lines printed.
GHOST_FIELDS.update({
    "World.made": "glist[str]", "World.wpaths": "glist[str]", "World.wdata": "glist[str]", "World.out": "glist[str]",
})
EXTERNAL_CLASSES.update({"World": {"bases": []}, "PathSpec": {"bases": []}})
GHOST_FIELDS.update({"PathSpec.g_patterns": "list[str]"})


@contract("ext:os.path.isdir")
class ext_isdir:
    trusted = True
    types = {"_params": ["p"], "p": "str", "return": "bool"}

    def returns(p):
        return fs_isdir(p) or exists(0, len(WORLD.made), lambda i: WORLD.made[i] == p)
    modifies = []


@contract("ext:os.path.isfile")
class ext_isfile:
    trusted = True
    types = {"_params": ["p"], "p": "str", "return": "bool"}

    def returns(p):
        return fs_isfile(p)
    modifies = []


@contract("ext:os.path.exists")
class ext_exists:
    trusted = True
    types = {"_params": ["p"], "p": "str", "return": "bool"}

    def returns(p):
        return fs_exists(p)

    def ensures(p, result):
        return (not fs_isdir(p) or result) and (not fs_isfile(p) or result) and not (fs_isdir(p) and fs_isfile(p))
    modifies = []


@contract("ext:os.path.join")
class ext_join:
    trusted = True
    types = {"_params": ["a", "b"], "a": "str", "b": "str", "return": "str"}

    def returns(a, b):
        return path_join(a, b)
    modifies = []


@contract("ext:os.path.relpath")
class ext_relpath:
    trusted = True
    types = {"_params": ["p", "start"], "p": "str", "start": "str", "return": "str"}

    def returns(p, start):
        return path_relpath(p, start)
    modifies = []


@contract("ext:os.path.basename")
class ext_basename:
    trusted = True
    types = {"_params": ["p"], "p": "str", "return": "str"}

    def returns(p):
        return path_basename(p)
    modifies = []


@contract("ext:os.path.dirname")
class ext_dirname:
    trusted = True
    types = {"_params": ["p"], "p": "str", "return": "str"}

    def returns(p):
        return path_dirname(p)
    modifies = []


@contract("ext:os.path.abspath")
class ext_abspath:
    trusted = True
    types = {"_params": ["p"], "p": "str", "return": "str"}

    def returns(p):
        return path_abspath(p)
    modifies = []


@contract("ext:os.path.normpath")
class ext_normpath:
    trusted = True
    types = {"_params": ["p"], "p": "str", "return": "str"}

    def returns(p):
        return path_normpath(p)
    modifies = []


@contract("ext:os.makedirs")
class ext_makedirs:
    """creates p and missing ancestors, nothing else (exist_ok=True: no error if present)"""
    trusted = True
    types = {"_params": ["p", "exist_ok"], "_defaults": {"exist_ok": False}, "p": "str", "exist_ok": "bool"}

    raises = {"FileExistsError": lambda p: fs_isfile(p)}
    raises_exact = True

    def requires(p, exist_ok):
        return exist_ok

    def ensures(p, exist_ok):
        return (len(WORLD.made) == len(old.WORLD.made) + 1 and WORLD.made[-1] == p and
                forall(0, len(old.WORLD.made), lambda i: WORLD.made[i] == old.WORLD.made[i]) and
                exists(0, len(WORLD.made), lambda i: WORLD.made[i] == p))
    modifies = ["items(WORLD.made)"]


@contract("ext:file.write")
class ext_file_write:
    """open(path, 'w') ... write(text): the file `path` now holds `text`; no other file is touched"""
    trusted = True
    types = {"_params": ["path", "text"], "path": "str", "text": "str"}

    def ensures(path, text):
        return (len(WORLD.wpaths) == len(old.WORLD.wpaths) + 1 and WORLD.wpaths[-1] == path and
                len(WORLD.wdata) == len(old.WORLD.wdata) + 1 and WORLD.wdata[-1] == text and
                forall(0, len(old.WORLD.wpaths), lambda i: WORLD.wpaths[i] == old.WORLD.wpaths[i]) and
                forall(0, len(old.WORLD.wdata), lambda i: WORLD.wdata[i] == old.WORLD.wdata[i]))
    modifies = ["items(WORLD.wpaths)", "items(WORLD.wdata)"]


@contract("ext:print")
class ext_print:
    """print(x): x followed by print's own line terminator on standard output"""
    trusted = True
    types = {"_params": ["x"], "x": "str"}

    def ensures(x):
        return (len(WORLD.out) == len(old.WORLD.out) + 1 and WORLD.out[-1] == x + "\n" and
                forall(0, len(old.WORLD.out), lambda i: WORLD.out[i] == old.WORLD.out[i]))
    modifies = ["items(WORLD.out)"]


@contract("ext:copy.deepcopy")
class ext_deepcopy:
    """a fresh object graph, disjoint from the original (here: a Settings object)"""
    trusted = True
    types = {"_params": ["x"], "x": "ref:Settings", "return": "ref:Settings"}
    result_exact = True

    def ensures(x, result):
        return (fresh(result) and fresh(result.rst) and fresh(result.input) and fresh(result.output) and
                result.rst.prefix == x.rst.prefix and
                result.rst.module_path_separator == x.rst.module_path_separator and
                result.rst.file_extensions_in_titles == x.rst.file_extensions_in_titles and
                result.rst.file_extensions_in_modules == x.rst.file_extensions_in_modules and
                (result.rst.headers is None) == (x.rst.headers is None) and
                (x.rst.headers is None or (len(result.rst.headers) == len(x.rst.headers) and
                                           forall(0, len(x.rst.headers),
                                                  lambda i: result.rst.headers[i] == x.rst.headers[i]))) and
                result.output.directory == x.output.directory)
    modifies = []


# ------------------------------------------------------------------------------------------------ T-OS: directory walk
# os.walk(top, topdown=True) is modelled as the sequence of its steps (root, dirs, files): each step hands out two
# fresh lists of pairwise different names.  WHICH directories later steps visit depends on what the consumer leaves in
# `dirs` (top-down pruning); that dependency is part of the trusted description in DESIGN.md (C13/C15 composition), the
# proofs only use the per-step facts below.  os.scandir(p) is a function of p (scan_len/scan_path/scan_isfile).
EXTERNAL_CLASSES.update({"DirEntry": {"bases": []}})
GHOST_FIELDS.update({"DirEntry.path": "str", "DirEntry.g_isfile": "bool"})


@contract("ext:os.walk")
class ext_os_walk:
    """a lazy iterator: see ext:os.walk.next"""
    trusted = True
    types = {"_params": ["top", "topdown", "followlinks"], "_defaults": {"topdown": True, "followlinks": False},
             "top": "str", "topdown": "bool", "followlinks": "bool", "return": "iter:os.walk"}

    def requires(top, topdown, followlinks):
        return topdown
    modifies = []


@contract("ext:os.walk.next")
class ext_os_walk_next:
    """step number _k of the walk: a directory path and two NEW lists of pairwise different names (its sub-directory
    and file names in the order the operating system lists them); the first step is the top directory itself"""
    trusted = True
    types = {"_yields": ["root:str", "dirs:list[str]", "files:list[str]"]}

    def ensures(top, root, dirs, files, _k):
        return (_k != 0 or root == top) and distinct_strs(dirs) and distinct_strs(files)


@contract("ext:os.scandir")
class ext_os_scandir:
    trusted = True
    types = {"_params": ["p"], "p": "str"}

    def returns(p):
        return fs_scandir(p)
    modifies = []


@contract("ext:DirEntry.is_file")
class ext_direntry_is_file:
    trusted = True
    types = {"_params": [], "self": "ref:DirEntry", "return": "bool"}

    def returns(self):
        return self.g_isfile
    modifies = []


@contract("ext:pathspec.PathSpec.from_lines")
class ext_pathspec_from_lines:
    """compiles the patterns (gitwildmatch); later changes of the list do not affect the compiled spec"""
    trusted = True
    types = {"_params": ["factory", "lines"], "factory": "str", "lines": "list[str]", "return": "ref:PathSpec"}
    result_exact = True

    def requires(factory, lines):
        return factory == "pathspec.patterns.GitWildMatchPattern"

    def ensures(factory, lines, result):
        return (fresh(result) and fresh(result.g_patterns) and len(result.g_patterns) == len(lines) and
                forall(0, len(lines), lambda i: result.g_patterns[i] == lines[i]) and
                forall_str(lambda p: spec_excl(result, p) == excluded(lines, p)))
    modifies = []


@contract("ext:PathSpec.match_file")
class ext_pathspec_match_file:
    trusted = True
    types = {"_params": ["p"], "self": "ref:PathSpec", "p": "str", "return": "bool"}

    def returns(self, p):
        return spec_excl(self, p)
    modifies = []
