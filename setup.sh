#!/bin/sh
# Builds /verif/.venv offline: python 3.12 (same interpreter as the repository's /venv) with
# z3-solver, cvc5, crosshair-tool, deal, icontract from the offline wheelhouse, plus a .pth that
# makes the repository's own dependencies (antlr4 runtime, confuse, pathspec, docutils ...) importable.
set -e
cd "$(dirname "$0")"
if [ -x .venv/bin/python ] && .venv/bin/python -c 'import z3, antlr4, confuse, pathspec' 2>/dev/null; then
  echo "setup: .venv already usable"; exit 0
fi
rm -rf .venv
/venv/bin/python -m venv .venv
PIP_NO_INDEX=1 .venv/bin/python -m pip install -q --no-index --find-links /opt/veriftools/wheels z3-solver cvc5 crosshair-tool deal icontract jsonschema hypothesis >/dev/null 2>&1 || \
PIP_NO_INDEX=1 .venv/bin/python -m pip install -q --no-index --find-links /opt/veriftools/wheels z3-solver cvc5
SP=$(.venv/bin/python -c 'import site; print(site.getsitepackages()[0])')
echo "import site; site.addsitedir('/venv/lib/python3.12/site-packages')" > "$SP/zz_repo_deps.pth"
.venv/bin/python -c 'import z3, antlr4, confuse, pathspec; print("setup: ok, z3", z3.get_version_string())'
