#!/usr/bin/env python3
"""Regenerates MANIFEST.json from pyvc/props.py (claimed properties) + the fixed not_applicable list."""
import json, sys, os
sys.path.insert(0, os.path.dirname(os.path.abspath(__file__)))
from pyvc.props import PROPS, MANIFEST_TEXT, NOT_APPLICABLE
checks = []
for pid in sorted(PROPS):
    t = MANIFEST_TEXT[pid]
    checks.append({
        "property_id": pid,
        "quick_cmd": f"./check {pid} --tier quick",
        "thorough_cmd": f"./check {pid} --tier thorough",
        "evidence_file": f"/verif/evidence/{pid}.json",
        "replay_cmd_template": f"./check {pid} --replay {{path}}",
        "engine": "pyvc",
        "level_claimed": {"category": PROPS[pid]["level"], "text": t["text"], "design_ref": t["design_ref"]},
        "level_note": t["note"],
        "technique": t["technique"],
    })
m = {
    "version": 1,
    "setup_cmd": "./setup.sh",
    "hooks": {"guard": "CMINX_VERIF",
              "enable": "no source hooks: contracts are sidecar files under /verif/contracts; the verified text is re-read from /repo/src/cminx/*.py on every run and the run-time contract wrappers are installed by attribute assignment inside the checking interpreter",
              "baseline_off_cmd": "cd /repo && /venv/bin/python -m pytest -ra -q -p no:cacheprovider --timeout=900 --continue-on-collection-errors",
              "source_commits": [], "add_only": True},
    "engines": [{"name": "pyvc", "path": "/verif/pyvc",
                 "serves_properties": sorted(PROPS),
                 "kind_free_text": "contract-based deductive verifier for a Python subset written for this task: ast of the real source -> path-wise symbolic execution against sidecar contracts (pre/post/modifies/loop invariants/ghost specs) -> SMT obligations discharged by z3 5.1 / cvc5 / z3 4.8.12; the same contracts are evaluated natively on the real functions as the labelled bounded stand-in and replay vehicle"}],
    "checks": checks,
    "notes": "exit 0 held / 1 VIOLATION (+replay) / 2 undecided / 3 checker failure. Known findings: known_findings.json.",
    "not_applicable": NOT_APPLICABLE,
}
json.dump(m, open(os.path.join(os.path.dirname(os.path.abspath(__file__)), "MANIFEST.json"), "w"), indent=1)
print("claimed:", sorted(PROPS), "not applicable:", [x["property_id"] for x in NOT_APPLICABLE])
